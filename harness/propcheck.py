"""Executable forms of the parser properties, evaluated on what the implementation returns.
Each function returns None (holds) or a short description of the first violation."""
from __future__ import annotations

import re


# ---------------------------------------------------------------- C02

def wf_stream(tokens, block: bool, path="") -> str | None:
    stack = []
    prev_text = False
    for i, t in enumerate(tokens):
        where = f"{path}[{i}] {t.type}"
        if t.type == "text_special":
            return f"{where}: text_special survived"
        if t.type == "text" and prev_text:
            return f"{where}: two adjacent text tokens"
        prev_text = t.type == "text"
        if bool(t.block) != block:
            return f"{where}: block flag is {t.block}, expected {block}"
        if t.nesting == -1:
            if not stack:
                return f"{where}: closes nothing (depth would go negative)"
            o = stack.pop()
            if not (o.type.endswith("_open") and t.type.endswith("_close") and o.type[:-5] == t.type[:-6]):
                return f"{where}: closes {o.type}"
            if o.tag != t.tag:
                return f"{where}: tag {t.tag!r} closes tag {o.tag!r}"
            if o.markup != t.markup:
                return f"{where}: markup {t.markup!r} closes markup {o.markup!r}"
        elif t.nesting not in (0, 1):
            return f"{where}: nesting {t.nesting}"
        if t.level != len(stack):
            return f"{where}: level {t.level} != depth {len(stack)}"
        if t.nesting == 1:
            if not t.type.endswith("_open"):
                return f"{where}: opening token without _open type"
            stack.append(t)
        if t.children is not None and t.type not in ("inline", "image"):
            return f"{where}: carries children"
        if t.type == "inline":
            if t.children is None:
                return f"{where}: inline without children list"
            r = wf_stream(t.children, False, where + ".children")
            if r:
                return r
        if t.type == "image" and t.children:
            r = wf_stream(t.children, False, where + ".children")
            if r:
                return r
    if stack:
        return f"{path}: unclosed {stack[-1].type} at end"
    return None


def c02(tokens) -> str | None:
    r = wf_stream(tokens, True)
    if r:
        return r
    from markdown_it.tree import SyntaxTreeNode
    try:
        SyntaxTreeNode(tokens)
    except Exception as e:  # noqa: BLE001
        return f"SyntaxTreeNode failed: {e!r}"
    return None


# ---------------------------------------------------------------- C03

BLANK = re.compile(r"^[ \t]*$")
END_NONBLANK = {"paragraph_open", "heading_open", "hr", "code_block", "tr_open"}


def c03(tokens, norm_src: str, env) -> str | None:
    lines = norm_src.split("\n")
    if lines and lines[-1] == "":
        lines.pop()
    n = len(lines)

    def blank(i):
        return i >= len(lines) or BLANK.match(lines[i]) is not None

    # tree of (token, children) by nesting
    root = []
    stack = [root]
    for t in tokens:
        if t.nesting == 1:
            node = (t, [])
            stack[-1].append(node)
            stack.append(node[1])
        elif t.nesting == -1:
            if len(stack) > 1:
                stack.pop()
        else:
            stack[-1].append((t, []))

    def check(nodes, enclosing):
        prev_end = None
        for t, kids in nodes:
            m = t.map
            if m is not None:
                b, e = m
                where = f"{t.type} map={m}"
                if not (0 <= b < e <= n):
                    return f"{where}: not 0 <= b < e <= {n}"
                if blank(b):
                    return f"{where}: starts on a blank line"
                if enclosing is not None and not (enclosing[0] <= b and e <= enclosing[1]):
                    return f"{where}: not inside the enclosing map {list(enclosing)}"
                if prev_end is not None and b < prev_end:
                    return f"{where}: starts before the end ({prev_end}) of the preceding sibling"
                if t.type in END_NONBLANK and blank(e - 1):
                    return f"{where}: ends on a blank line"
                if t.type == "inline":
                    cl = t.content.split("\n")
                    if len(cl) > e - b:
                        return f"{where}: content has {len(cl)} lines, map spans {e - b}"
                    for k, c in enumerate(cl):
                        # (a table cell holds its text with escaped pipes resolved)
                        if c.strip() and c.strip() not in lines[b + k] and c.strip() not in lines[b + k].replace("\\|", "|"):
                            return f"{where}: content line {k} {c!r} does not occur in source line {b + k} {lines[b + k]!r}"
                prev_end = e
            r = check(kids, tuple(m) if m is not None else enclosing)
            if r:
                return r
        return None
    r = check(root, None)
    if r:
        return r
    covered = [False] * n
    for t, _ in root:
        if t.map is not None:
            for k in range(t.map[0], min(t.map[1], n)):
                covered[k] = True
    for ref in list((env.get("references") or {}).values()) + list(env.get("duplicate_refs") or []):
        m = ref.get("map")
        if m:
            for k in range(m[0], min(m[1], n)):
                covered[k] = True
    for k in range(n):
        if not blank(k) and not covered[k]:
            return f"non-blank line {k} {lines[k]!r} is in no top-level map and no reference definition"
    return None


# ---------------------------------------------------------------- C08

def _strip_indent(line: str, cols: int):
    """remove up to [cols] columns of leading blanks (tabs to multiples of 4 from column 0);
    returns the set of acceptable remainders (a partial tab may be re-padded with spaces)"""
    col = 0
    i = 0
    while i < len(line) and col < cols and line[i] in " \t":
        w = 4 - col % 4 if line[i] == "\t" else 1
        col += w
        i += 1
    pad = col - cols if col > cols else 0
    return " " * pad + line[i:]


def _col(prefix: str) -> int:
    col = 0
    for ch in prefix:
        col += 4 - col % 4 if ch == "\t" else 1
    return col


def _remove_cols(line: str, cols: int) -> str:
    """drop leading container-prefix / blank characters up to [cols] columns; a tab that straddles
    the boundary leaves its remaining width as spaces"""
    col = 0
    i = 0
    while i < len(line) and col < cols and line[i] in " \t>":
        col += 4 - col % 4 if line[i] == "\t" else 1
        i += 1
    return " " * max(0, col - cols) + line[i:]


def _expand(s: str, start_col: int = 0) -> str:
    out = []
    col = start_col
    for ch in s:
        if ch == "\t":
            w = 4 - col % 4
            out.append(" " * w)
            col += w
        else:
            out.append(ch)
            col += 1
    return "".join(out)


def _strip_quotes(e: str, nq: int):
    """position in the tab-expanded line after nq block quote markers (each with its optional
    following blank), or None if the line does not carry them"""
    i = 0
    for _ in range(nq):
        while i < len(e) and e[i] == " ":
            i += 1
        if i >= len(e) or e[i] != ">":
            return None
        i += 1
        if i < len(e) and e[i] == " ":
            i += 1
    return i


def _fence_indent_check(t, lines, anc, where):
    """CommonMark: each content line loses as many columns of indentation as the opening fence has
    (inside its containers).  Decided here for fences nested in block quotes only, or in lists only."""
    containers = [a for a in anc if a in ("blockquote_open", "list_item_open")]
    nq = containers.count("blockquote_open")
    if nq and nq != len(containers):
        return None
    first = _expand(lines[t.map[0]])
    j = first.find(t.markup)
    if nq:
        if set(first[:j]) - set(" >") or first[:j].count(">") != nq:
            return None
        base = _strip_quotes(first, nq)
        if base is None:
            return None
    else:
        base = 0
    f = j - base
    body = lines[t.map[0] + 1:t.map[1]]
    cl = t.content.split("\n")[:-1] if t.content.endswith("\n") else []
    for k, c in enumerate(cl[:len(body)]):
        e = _expand(body[k])
        st = _strip_quotes(e, nq) if nq else 0
        if st is None:
            continue
        n = 0
        while n < f and st + n < len(e) and e[st + n] == " ":
            n += 1
        exp = e[st + n:]
        got = _expand(c, st + n)
        if got != exp:
            return f"{where}: content line {k} is {c!r}; the source line {body[k]!r} minus the fence's {f} columns of indentation is {exp!r}"
    return None


def c08(tokens, norm_src: str) -> str | None:
    lines = norm_src.split("\n")

    def src_lines(m):
        return lines[m[0]:m[1]]

    def walk(ts, prefix_ok=True):
        anc = []
        for i, t in enumerate(ts):
            where = f"[{i}] {t.type} map={t.map}"
            if t.nesting == -1 and anc:
                anc.pop()
            if t.nesting == 1:
                anc.append(t.type)
            if t.type in ("code_block", "fence", "html_block") and t.map:
                body = src_lines(t.map)
                content = t.content.split("\n")
                if t.content.endswith("\n") or t.content == "":
                    content = content[:-1]
                if t.type == "fence":
                    body = body[1:]
                    # a closing fence line is not content
                    if len(body) > len(content):
                        body = body[:len(content)]
                if len(content) > len(body) and not all(c == "" for c in content[len(body):]):
                    return f"{where}: content has more lines than its source range"
                for k, c in enumerate(content[:len(body)]):
                    s = body[k]
                    # the content line must be a suffix of the source line up to removed indentation
                    # (container prefix + blanks); a partial tab may have become spaces
                    cs = c.lstrip(" ")
                    if cs and not s.endswith(cs):
                        return f"{where}: content line {k} {c!r} is not the tail of source line {s!r}"
                    if not cs and s.strip(" \t>") and t.type != "html_block":
                        # an empty content line must come from a source line that is blank after its prefix
                        rest = re.sub(r"^[ \t>]*(?:(?:[-+*]|\d{1,9}[.)])[ \t]+)*[ \t>]*", "", s)
                        if rest.strip(" \t"):
                            return f"{where}: content line {k} is empty but source line is {s!r}"
            if t.type == "fence" and t.map and t.markup in lines[t.map[0]]:
                r = _fence_indent_check(t, lines, anc, where)
                if r:
                    return r
            if t.type == "fence" and t.map:
                first = lines[t.map[0]]
                if t.markup not in first or len(set(t.markup)) != 1 or t.markup[0] not in "`~" or len(t.markup) < 3:
                    return f"{where}: markup {t.markup!r} not in opening line {first!r}"
                j = first.find(t.markup)
                run = re.match(r"(`+|~+)", first[j:]).group(1)
                if run != t.markup:
                    return f"{where}: markup {t.markup!r} is not the whole marker run {run!r}"
                if t.info != first[j + len(run):]:
                    return f"{where}: info {t.info!r} is not the rest of the opening line {first[j + len(run):]!r}"
            if t.type == "hr" and t.map:
                s = lines[t.map[0]]
                m = t.markup
                ok = bool(m) and len(set(m)) == 1 and m[0] in "*-_"
                if ok:
                    # some tail of the line (after the container prefix) is the thematic break itself:
                    # exactly len(markup) markers and otherwise blanks
                    ok = False
                    for st in range(len(s)):
                        if st and s[st - 1] not in " \t>":
                            continue
                        tail = s[st:]
                        if tail.strip(" \t") and set(tail) <= set(m[0] + " \t") and tail.count(m[0]) == len(m):
                            ok = True
                            break
                if not ok:
                    return f"{where}: markup {m!r} is not the marker run of a tail of {s!r}"
            if t.type == "heading_open" and t.map and t.markup and t.markup[0] == "#":
                s = lines[t.map[0]]
                mm = re.search(r"#+", s)
                if not mm or mm.group(0)[:6] != t.markup and mm.group(0) != t.markup:
                    return f"{where}: markup {t.markup!r} is not the marker run of {s!r}"
                if t.tag != "h" + str(len(t.markup)):
                    return f"{where}: tag {t.tag} for markup {t.markup!r}"
            if t.type == "heading_open" and t.map and t.markup in ("=", "-"):
                s = lines[t.map[1] - 1]
                if set(s.strip(" \t>")) - set(" \t") - set(t.markup) and t.markup not in s:
                    return f"{where}: setext markup {t.markup!r} not in underline {s!r}"
            if t.type in ("bullet_list_open", "ordered_list_open", "list_item_open") and t.map:
                s = lines[t.map[0]]
                if t.markup not in s:
                    return f"{where}: markup {t.markup!r} not in {s!r}"
            if t.type == "list_item_open" and t.info:
                s = lines[t.map[0]]
                if not re.search(r"(?<!\d)" + re.escape(t.info) + re.escape(t.markup), s):
                    return f"{where}: info {t.info!r} + marker not in {s!r}"
            if t.type == "ordered_list_open" and t.map:
                s = lines[t.map[0]]
                mm = [x for x in re.finditer(r"(?<!\d)(\d{1,9})" + re.escape(t.markup), s)]
                start = t.attrs.get("start", 1)
                if not any(int(x.group(1)) == start for x in mm):
                    return f"{where}: start {start} is not a number written in {s!r}"
            if t.type == "blockquote_open" and t.map:
                if t.markup != ">" or ">" not in lines[t.map[0]]:
                    return f"{where}: markup {t.markup!r}"
            if t.children:
                r = walk_inline(t.children, t)
                if r:
                    return r
        return None

    def walk_inline(ch, parent):
        for c in ch:
            if c.type == "code_inline":
                m = c.markup
                if not m or set(m) != {"`"}:
                    return f"code_inline markup {m!r}"
                src = parent.content
                # the span's text must be some stretch between two backtick strings of that length
                ok = False
                # openers: maximal backtick runs, shortened by one when an odd number of backslashes escapes the
                # first backtick; closers: raw maximal runs (no escapes inside a code span)
                runs = [(mm.start(), mm.end()) for mm in re.finditer(r"`+", src)]
                openers = []
                for a, b in runs:
                    k = a
                    while k > 0 and src[k - 1] == "\\":
                        k -= 1
                    # with the escape rule disabled a backslash escapes nothing: the raw run opens too
                    if b - a == len(m):
                        openers.append(b)
                    if (a - k) % 2:
                        a += 1
                        if b - a == len(m):
                            openers.append(b)
                closers = [a for a, b in runs if b - a == len(m)]
                for st in openers:
                    for a in closers:
                        if a < st:
                            continue
                        raw = src[st:a].replace("\n", " ")
                        exp = raw[1:-1] if raw.startswith(" ") and raw.endswith(" ") and raw.strip(" ") else raw
                        if exp == c.content:
                            ok = True
                            break
                    if ok:
                        break
                if not ok:
                    return f"code_inline content {c.content!r} (markup {m!r}) is not the text between two such backtick strings in {src!r}"
            if c.children:
                r = walk_inline(c.children, c if c.type == "image" else parent)
                if r:
                    return r
        return None
    return walk(tokens)
