"""Configurations: preset x random subsets of the optional rules x option values (C01's lattice)."""
from __future__ import annotations

OPTIONAL_BLOCK = ["table", "code", "fence", "blockquote", "hr", "list", "reference", "html_block", "heading", "lheading"]
OPTIONAL_INLINE = ["newline", "escape", "backticks", "strikethrough", "emphasis", "link", "image", "autolink",
                   "html_inline", "entity"]
OPTIONAL_INLINE2 = ["balance_pairs", "strikethrough", "emphasis", "fragments_join"]
OPTIONAL_CORE = ["replacements", "smartquotes"]
PRESETS = ["commonmark", "js-default", "zero", "default"]
QUOTES = ["“”‘’", ["<<", ">>", "<", ">"], ["«\xa0", "\xa0»", "‹\xa0", "\xa0›"], ["", "", "", ""],
          ['"', '"', "'", "'"], "„“‚‘"]


def random_config(rng, html=None, typographer=None, full=False):
    preset = rng.choice(PRESETS)
    opts = {}
    if html is not None:
        opts["html"] = html
    elif rng.random() < 0.5:
        opts["html"] = rng.random() < 0.5
    if typographer is not None:
        opts["typographer"] = typographer
    elif rng.random() < 0.5:
        opts["typographer"] = rng.random() < 0.6
    if rng.random() < 0.3:
        opts["breaks"] = rng.random() < 0.5
    if rng.random() < 0.3:
        opts["xhtmlOut"] = rng.random() < 0.5
    if rng.random() < 0.2:
        opts["langPrefix"] = rng.choice(["language-", "", "l\"<&"])
    if rng.random() < 0.3:
        opts["quotes"] = rng.choice(QUOTES)
    if rng.random() < 0.3:
        opts["maxNesting"] = rng.choice([1, 2, 3, 5, 20, 100])
    if rng.random() < 0.2:
        opts["inline_definitions"] = True
    if rng.random() < 0.2:
        opts["store_labels"] = True
    opts["linkify"] = False
    enable, disable = [], []
    names = OPTIONAL_BLOCK + OPTIONAL_INLINE + OPTIONAL_CORE
    r = rng.random()
    if full:
        enable = list(names)
    elif r < 0.35:
        pass
    elif r < 0.7:
        for n in names:
            x = rng.random()
            if x < 0.25:
                enable.append(n)
            elif x < 0.4:
                disable.append(n)
    else:
        for n in names:
            (enable if rng.random() < 0.5 else disable).append(n)
    ruler2_off = [n for n in OPTIONAL_INLINE2 if rng.random() < 0.08]
    return {"preset": preset, "options": opts, "enable": enable, "disable": disable, "ruler2_off": ruler2_off}


def make_md(cfg):
    from markdown_it import MarkdownIt
    md = MarkdownIt(cfg["preset"], dict(cfg["options"]))
    if cfg["enable"]:
        md.enable(cfg["enable"], True)
    if cfg["disable"]:
        md.disable(cfg["disable"], True)
    for n in cfg.get("ruler2_off", []):
        md.inline.ruler2.disable(n, True)
    return md


STANDARD = [
    {"preset": "commonmark", "options": {}, "enable": [], "disable": [], "ruler2_off": []},
    {"preset": "js-default", "options": {"linkify": False}, "enable": [], "disable": [], "ruler2_off": []},
    {"preset": "commonmark", "options": {"typographer": True}, "enable": ["table", "strikethrough", "replacements", "smartquotes"],
     "disable": [], "ruler2_off": []},
    {"preset": "zero", "options": {}, "enable": [], "disable": [], "ruler2_off": []},
    {"preset": "js-default", "options": {"html": True, "typographer": True, "linkify": False}, "enable": [], "disable": [],
     "ruler2_off": []},
]
