"""Shared machinery of the checks: paths, wire format, model runners (extracted
driver and in-kernel), proof building, evidence, violation protocol."""
from __future__ import annotations

import fcntl
import hashlib
import json
import os
import random
import re
import subprocess
import sys
import time
from pathlib import Path

VERIF = Path("/verif")
REPO = Path("/repo")
COQ = VERIF / "coq"
BIN = VERIF / "bin" / "mdmodel"
EVID = VERIF / "evidence"
REPLAYS = VERIF / "replays"
CORPUS = VERIF / "corpus"
WORK = VERIF / "work" / f"p{os.getpid()}"  # per-process scratch (checks may run concurrently), ignored by git, removed at the end of each run

if str(REPO) not in sys.path:
    sys.path.insert(0, str(REPO))


# --------------------------------------------------------------------------
# wire format


def sx(o) -> str:
    """Python value -> s-expression text.  int/bool -> integer; str -> list of code
    points; None -> (); list/tuple -> list.  Use Opt(x) for option values."""
    out: list[str] = []
    _sx(o, out)
    return "".join(out)


class Opt:
    __slots__ = ("v",)

    def __init__(self, v):
        self.v = v


def _sx(o, out):
    if o is True:
        out.append("1")
    elif o is False:
        out.append("0")
    elif isinstance(o, int):
        out.append(str(o))
    elif isinstance(o, str):
        out.append("(" + " ".join(str(ord(c)) for c in o) + ")")
    elif o is None:
        out.append("()")
    elif isinstance(o, Opt):
        if o.v is None:
            out.append("()")
        else:
            out.append("(")
            _sx(o.v, out)
            out.append(")")
    elif isinstance(o, (list, tuple)):
        out.append("(")
        first = True
        for x in o:
            if not first:
                out.append(" ")
            first = False
            _sx(x, out)
        out.append(")")
    else:
        raise TypeError(f"cannot encode {type(o)}")


_tok = re.compile(r"\(|\)|-?\d+")


def unsx(s: str):
    """s-expression text -> nested lists of ints."""
    stack = [[]]
    for m in _tok.finditer(s):
        t = m.group()
        if t == "(":
            stack.append([])
        elif t == ")":
            x = stack.pop()
            stack[-1].append(x)
        else:
            stack[-1].append(int(t))
    return stack[0][0] if stack[0] else None


def s_of(l) -> str:
    return "".join(chr(c) for c in l)


def sx_to_coq(s: str) -> str:
    """s-expression text -> Gallina term of type sx."""
    v = unsx(s)

    def go(x):
        if isinstance(x, int):
            return f"SI ({x})" if x < 0 else f"SI {x}"
        return "SL [" + "; ".join(go(y) for y in x) + "]"

    return go(v)


# --------------------------------------------------------------------------
# running the model


def run_model(lines: list[str], timeout: int = 600) -> list[str]:
    """Run the extracted model on one case per line; returns one result per line."""
    if not lines:
        return []
    nproc = min(16, max(1, len(lines) // 200))
    if nproc == 1:
        return _run_model_one(lines, timeout)
    chunks = [lines[i::nproc] for i in range(nproc)]
    procs = []
    for ch in chunks:
        p = subprocess.Popen(
            ["bash", "-c", f"ulimit -s unlimited 2>/dev/null; exec {BIN}"],
            stdin=subprocess.PIPE,
            stdout=subprocess.PIPE,
            text=True,
        )
        procs.append((p, ch))
    import threading

    results = [None] * nproc

    def feed(i, p, ch):
        out, _ = p.communicate("\n".join(ch) + "\n", timeout=timeout)
        results[i] = out.split("\n")[: len(ch)]

    ths = [threading.Thread(target=feed, args=(i, p, ch)) for i, (p, ch) in enumerate(procs)]
    for t in ths:
        t.start()
    for t in ths:
        t.join()
    out = [None] * len(lines)
    for i in range(nproc):
        for j, r in enumerate(results[i]):
            out[i + j * nproc] = r
    return out


def _run_model_one(lines, timeout):
    p = subprocess.run(
        ["bash", "-c", f"ulimit -s unlimited 2>/dev/null; exec {BIN}"],
        input="\n".join(lines) + "\n",
        capture_output=True,
        text=True,
        timeout=timeout,
    )
    res = p.stdout.split("\n")
    if len(res) < len(lines):
        res += ["(-4)"] * (len(lines) - len(res))
    return res[: len(lines)]


def run_kernel(cases: list[tuple[str, str]], tag: str, timeout: int = 300) -> tuple[int, list[int]]:
    """Evaluate [dispatch input] inside Coq (vm_compute) for each (input, expected)
    pair and return (number evaluated, indices that differ from expected)."""
    if not cases:
        return 0, []
    WORK.mkdir(parents=True, exist_ok=True)
    shard = 250
    files = []
    for k in range(0, len(cases), shard):
        f = WORK / f"cases_{tag}_{k}.v"
        body = ["From MD Require Import Base.Py Base.Sx Run.Dispatch.", "Definition cases : list (sx * sx) := ["]
        body.append(";\n".join(f"({sx_to_coq(i)}, {sx_to_coq(e)})" for i, e in cases[k : k + shard]))
        body.append("].")
        body.append(
            "Definition bad := let fix go (n : Z) (l : list (sx * sx)) := match l with [] => [] "
            "| (i, e) :: l' => if sx_eqb (dispatch i) e then go (n + 1) l' else n :: go (n + 1) l' end in go 0 cases."
        )
        body.append('Eval vm_compute in (SL [SI 777777; SL (map SI bad); SI (len cases)]).')
        f.write_text("\n".join(body))
        files.append((k, f))
    bad: list[int] = []
    n = 0
    procs = []
    for k, f in files:
        p = subprocess.Popen(
            ["bash", "-c", f"ulimit -s unlimited 2>/dev/null; cd {COQ} && timeout {timeout} coqc -Q . MD -o {f}o {f}"],
            stdout=subprocess.PIPE,
            stderr=subprocess.STDOUT,
            text=True,
        )
        procs.append((k, f, p))
    for k, f, p in procs:
        out, _ = p.communicate()
        flat = " ".join(out.split())
        m = re.search(r"SL \[SI 777777; SL \[(.*?)\]; SI (\d+)\]", flat)
        if not m:
            # the development does not build (a proof obligation or a generated table broke): no
            # in-kernel evaluation is possible; reported as a mismatch so that the check goes to
            # the violation protocol instead of crashing
            print(f"in-kernel evaluation unavailable: {' '.join(out.split())[-300:]}", flush=True)
            bad.append(-1)
            continue
        idx = [int(x) for x in re.findall(r"SI (\d+)", m.group(1))]
        bad += [k + i for i in idx]
        n += int(m.group(2))
        for ext in ("", "o", "ok", "os"):
            try:
                Path(str(f) + ext).unlink()
            except FileNotFoundError:
                pass
        g = f.with_suffix(".glob")
        if g.exists():
            g.unlink()
    return n, bad


# --------------------------------------------------------------------------
# building proofs


class Lock:
    """exclusive for everything that writes compiled files, shared for readers of them that run long (coqchk): two runs of the
    same check side by side would otherwise delete Props/<id>.vo under each other's coqchk"""

    def __init__(self, shared: bool = False):
        self.shared = shared

    def __enter__(self):
        WORK.mkdir(parents=True, exist_ok=True)
        self.f = open(VERIF / ".build.lock", "a")
        fcntl.flock(self.f, fcntl.LOCK_SH if self.shared else fcntl.LOCK_EX)
        return self

    def __exit__(self, *a):
        fcntl.flock(self.f, fcntl.LOCK_UN)
        self.f.close()


FORBIDDEN = re.compile(
    r"\b(Admitted|admit|Axiom|Axioms|Parameter|Parameters|Conjecture|Hypothesis|Variable|"
    r"Admit Obligations|Unset Guard Checking|bypass_check|Unset Positivity|Unset Universe Checking|type-in-type|impredicative-set)\b"
)


def scan_forbidden() -> list[str]:
    """Textual scan of the whole development for escape hatches (comments stripped).
    `Variable`/`Hypothesis` are allowed inside a Section only; we use `Context` instead
    everywhere, so any occurrence is reported."""
    hits = []
    for f in sorted(COQ.rglob("*.v")):
        txt = f.read_text()
        txt = re.sub(r"\(\*.*?\*\)", "", txt, flags=re.S)
        for i, line in enumerate(txt.split("\n"), 1):
            if FORBIDDEN.search(line):
                hits.append(f"{f.relative_to(COQ)}:{i}: {line.strip()}")
    return hits


def build(targets: list[str]) -> tuple[bool, str]:
    """make the given targets (full .vo); returns (ok, log)."""
    with Lock():
        p = subprocess.run(
            [str(VERIF / "build.sh")] + targets, capture_output=True, text=True, timeout=3300
        )
    return p.returncode == 0, p.stdout + p.stderr


def build_props(pid: str) -> dict:
    """Build the cone of Props/<pid>.v, recompiling the Props file itself so that its
    Print Assumptions output is captured on every run.  Returns
    {ok, obligations:[names], discharged:[names], assumptions:{name:text}, log, failed}"""
    pf = COQ / "Props" / f"{pid}.v"
    src = pf.read_text()
    src_nc = re.sub(r"\(\*.*?\*\)", "", src, flags=re.S)
    names = re.findall(r"^\s*(?:Theorem|Lemma|Corollary)\s+([A-Za-z0-9_']+)", src_nc, flags=re.M)
    vo = pf.with_suffix(".vo")
    with Lock():
        if vo.exists():
            vo.unlink()
        p = subprocess.run(
            [str(VERIF / "build.sh"), f"Props/{pid}.vo", "Extract/Extract.vo"],
            capture_output=True,
            text=True,
            timeout=3300,
        )
    log = p.stdout + p.stderr
    ok = p.returncode == 0 and vo.exists()
    assumptions = {}
    # Print Assumptions output: blocks following each theorem, in order
    blocks = re.findall(
        r"(Closed under the global context|Axioms:\n(?:.+\n?)+?(?=\n\S|\Z)|Axioms:[\s\S]*?(?=COQC|Closed under|\Z))", log
    )
    for n, b in zip(names, blocks):
        assumptions[n] = " ".join(b.split())
    failed = None
    if not ok:
        m = re.search(r'File "\./([^"]+)", line (\d+)', log)
        failed = f"{m.group(1)}:{m.group(2)}" if m else "build"
    return {
        "ok": ok,
        "obligations": names,
        "discharged": names if ok else [],
        "assumptions": assumptions,
        "log": log,
        "failed": failed,
    }


# --------------------------------------------------------------------------
# known findings, violations, evidence


def known_findings() -> list[dict]:
    f = VERIF / "KNOWN_FINDINGS.json"
    if not f.exists():
        return []
    return [e for e in json.loads(f.read_text())["findings"] if e.get("status") == "known"]


class Reporter:
    """Collects violations for one property run and prints the protocol lines."""

    def __init__(self, pid: str, tier: str, seed: int):
        self.pid = pid
        self.tier = tier
        self.seed = seed
        self.t0 = time.time()
        self.violations: list[str] = []
        self.known_hits: list[str] = []
        self.known = [k for k in known_findings() if k["property"] == pid]
        self.cov: dict = {}
        self.assumptions: list[str] = []

    def known_match(self, key: str) -> dict | None:
        for k in self.known:
            if k["match"] == key:
                return k
        return None

    def known_finding(self, k: dict):
        line = f"KNOWN-FINDING: property={self.pid} {k['what']}"
        if line not in self.known_hits:
            self.known_hits.append(line)
            print(line, flush=True)

    def violation(self, kind: str, detail: dict, no_input: bool = False):
        REPLAYS.mkdir(exist_ok=True)
        body = {"property": self.pid, "kind": kind, "seed": self.seed, "tier": self.tier, **detail}
        h = hashlib.sha1(json.dumps(body, sort_keys=True, default=str).encode()).hexdigest()[:12]
        path = REPLAYS / f"{self.pid}-{h}.json"
        path.write_text(json.dumps(body, indent=1, default=str))
        line = f"VIOLATION property={self.pid} replay={path}"
        if no_input:
            line += " no-failing-input-found"
        print(line, flush=True)
        self.violations.append(str(path))

    def finish(self, level: str, coverage: dict, assumptions: list[str]) -> int:
        EVID.mkdir(exist_ok=True)
        try:
            import sys as _sys
            pc = _sys.modules.get("pipecheck")
            ic = pc.impl_coverage_summary() if pc is not None else None
            if ic is not None and isinstance(coverage, dict):
                coverage = dict(coverage, implementation_statement_coverage=ic)
        except Exception:  # noqa: BLE001
            pass
        ev = {
            "property_id": self.pid,
            "tier": self.tier,
            "seed": self.seed,
            "level": level,
            "coverage": coverage,
            "assumptions": assumptions,
            "wall_s": round(time.time() - self.t0, 2),
            "violations": len(self.violations),
            "known_findings_reported": self.known_hits,
        }
        (EVID / f"{self.pid}.json").write_text(json.dumps(ev, indent=1, default=str))
        return 1 if self.violations else 0


def rng_for(pid: str, seed: int, stream: str = "") -> random.Random:
    return random.Random(f"{pid}/{seed}/{stream}")


TRUSTED_COMMON = [
    "Coq 8.16.1 kernel incl. vm_compute (no native_compute); coqchk in the thorough tier",
    "hand-written Gallina model: fidelity to /repo established only by the correspondence check of this run (sampled, seeded)",
    "extraction (ExtrOcamlBasic only, no Extract Constant) + OCaml 4.13.1 + generic driver.ml for the volume path; a sample is re-evaluated in-kernel",
    "CPython 3.12 semantics of str/list/dict primitives as written down in Base/Py.v",
]


def shrink_list(items: list, fails, budget: int = 400) -> list:
    """Greedy one-at-a-time / chunk removal while [fails(items)] stays true."""
    items = list(items)
    n = 0
    chunk = max(1, len(items) // 2)
    while chunk >= 1 and n < budget:
        i = 0
        progressed = False
        while i < len(items) and n < budget:
            cand = items[:i] + items[i + chunk :]
            n += 1
            try:
                bad = fails(cand)
            except Exception:
                bad = False
            if bad:
                items = cand
                progressed = True
            else:
                i += chunk
        if chunk == 1 and not progressed:
            break
        chunk = max(1, chunk // 2) if chunk > 1 else (1 if progressed else 0)
    return items


def exc_code(e: BaseException) -> int:
    """Python exception -> exn code of Base/Py.v"""
    table = [
        (IndexError, 1), (KeyError, 2), (ValueError, 3), (TypeError, 4), (AttributeError, 5),
        (AssertionError, 6), (RecursionError, 7), (ModuleNotFoundError, 8),
    ]
    for cls, c in table:
        if isinstance(e, cls):
            return c
    tag = getattr(e, "verif_tag", None)
    if tag is not None:
        return 100 + tag
    return 99


# --------------------------------------------------------------------------
# guarded calls into the implementation


class Hang(Exception):
    pass


def _alarm(signum, frame):
    raise Hang("call into the implementation did not return within its time limit")


def guarded(f, *args, limit: float = 5.0, **kw):
    """f(*args) under a wall-clock limit (main thread only); raises Hang"""
    import signal

    old = signal.signal(signal.SIGALRM, _alarm)
    signal.setitimer(signal.ITIMER_REAL, limit)
    try:
        return f(*args, **kw)
    finally:
        signal.setitimer(signal.ITIMER_REAL, 0)
        signal.signal(signal.SIGALRM, old)


def supported(md) -> bool:
    """the configuration keeps the fallback rules that guarantee progress (C01 'supported')"""
    a = md.get_active_rules()
    return ("paragraph" in a["block"] and "text" in a["inline"]
            and all(x in a["core"] for x in ("normalize", "block", "inline", "text_join")))


# --------------------------------------------------------------------------
# the common tail of a check


def conclude(rep: "Reporter", proofs: dict, direct: dict | None, direct_kind: str, disagreements: list,
             kbad: list, search=None, corr_level: str = "") -> None:
    """violation protocol: a direct failing input is reported with itself as replay; a broken
    proof / correspondence without one triggers [search] (a callable returning a failing input
    or None); otherwise no-failing-input-found naming what no longer checks"""
    if direct is not None:
        rep.violation(direct_kind, direct)
        return
    if disagreements or not proofs["ok"] or kbad:
        found = search() if search else None
        if found is not None:
            rep.violation(direct_kind, found)
            return
        what = {}
        if not proofs["ok"]:
            what["broken_proof"] = proofs["failed"]
            what["log_tail"] = proofs["log"][-1500:]
        if disagreements:
            what["correspondence"] = {"level": corr_level, "count": len(disagreements), "first": disagreements[0]}
        if kbad:
            what["kernel_vs_extracted"] = kbad[:5]
        rep.violation("model-correspondence", what, no_input=True)


def coqchk(pid: str) -> dict:
    """independent re-check of the compiled cone of Props/<pid>.vo; -o prints the axioms it relies on"""
    try:
        with Lock(shared=True):
            p = subprocess.run(["coqchk", "-silent", "-o", "-Q", str(COQ), "MD", f"MD.Props.{pid}"],
                               capture_output=True, text=True, timeout=2400)
        out = p.stdout + p.stderr
    except subprocess.TimeoutExpired:
        return {"ok": False, "summary": "coqchk timed out"}
    out = "\n".join(l for l in out.split("\n") if not l.startswith("WARNING"))
    i = out.find("CONTEXT SUMMARY")
    summary = out[i:] if i >= 0 else out[-1500:]
    ok = p.returncode == 0 and "* Axioms: <none>" in summary and "type-in-type: <none>" in summary \
        and "unsafe (co)fixpoints: <none>" in summary and "positivity is assumed: <none>" in summary
    return {"ok": ok, "summary": " ".join(summary.split())}


def proof_cov(pid: str, proofs: dict, extra_trusted: list[str]) -> dict:
    if "coqchk" in proofs:
        extra_trusted = extra_trusted + ["coqchk -o on this run: " + proofs["coqchk"]["summary"]]
    return {
        "obligations": len(proofs["obligations"]), "discharged": len(proofs["discharged"]),
        "checker_cmd": f"make Props/{pid}.vo (coqc 8.16.1, full .vo) via /verif/build.sh",
        "trusted_base": TRUSTED_COMMON + extra_trusted,
        "theorems": proofs["obligations"], "print_assumptions": proofs["assumptions"],
    }
