"""Writes /verif/MANIFEST.json from the table below (so it is always schema-valid) and
validates it.  Run:  python3-vt harness/mkmanifest.py"""
import json
import sys
from pathlib import Path

V = Path("/verif")

# property id -> (category, technique, level text, level note, design ref)
CLAIMED = {
    "C11": (
        "proof",
        "Coq proof by induction over operation histories on a line-by-line Gallina model of Ruler/MarkdownIt + differential correspondence (extracted OCaml and in-kernel vm_compute) against the real classes",
        "Theorems for ALL finite histories of Ruler operations (any names, raising or not): applied rules = reported active rules filtered by chain, in registration order (C11_applied_eq_reported, C11_history_coherent), exact set semantics of enable/disable/enableOnly incl. the state left by a raising call, frame conditions, unknown-name no-ops; the same through the MarkdownIt facade incl. nested reset_rules (facade_applied_eq_reported). The pre-repair code is refuted in Coq (C11_legacy_refuted). Each run re-proves the cone, regenerates rule registries/presets from /repo, and compares model and implementation step by step on ~1000 (quick) random histories; the property is also evaluated directly on the implementation.",
        "Trusted: Coq kernel (vm_compute), hand model of ruler.py/main.py tied to the code only by the sampled correspondence, extraction+driver for the volume path (sample re-run in-kernel), gen.py translator for registries/presets. Rule functions are opaque tags.",
        "DESIGN.md §3 C11",
    ),
    "C12": (
        "proof",
        "Coq proof (simulation modulo the lazily compiled caches, induction over multi-instance histories) on a world model of live MarkdownIt instances + differential correspondence of whole histories against the real library + fresh-instance probes",
        "Theorems for ALL histories over any number of instances: every management call behaves and reports as a function of the configuration proper only (options, rules, render rules), never of cache state, i.e. never of which parses ran before (C12_behaviour_depends_on_configuration_only); parses are inert (C12_parse_inert, C12_parses_can_be_deleted); operations on one instance never change another (C12_isolation) and each instance equals its fresh replay (C12_equals_fresh_replay). The parser is a parameter of the model: the proved claim is that nothing but the configuration can reach it. That the code has no other channel (module globals, shared presets, class attributes, default arguments) is validated on every run: ~150 (quick) random multi-instance histories are run on the real library and on the model with every instance observed after every step, every live instance and _PRESETS are deep-compared around every call, and afterwards every instance must render/parse probe documents exactly like a fresh instance with only its own calls replayed (env omitted == fresh {}; references must not travel).",
        "Trusted: Coq kernel; world model hand-written (Model/World.v, Model/Instance.v) and tied to main.py/ruler.py/utils.py by the sampled correspondence; frame condition 'a parse writes instance state only via Ruler.__cache__' is tested dynamically, not proved from source; extraction+driver (sample re-run in-kernel).",
        "DESIGN.md §3 C12",
    ),
    "C14": (
        "proof",
        "Coq proof (induction over arbitrary reset_rules bodies incl. nested blocks; simulation lemma for failed parses) on the MarkdownIt facade model + history correspondence + exhaustive-per-document fault injection at every user-callback invocation",
        "Theorems: for ANY body of management calls (nested blocks, raising anywhere) reset_rules leaves on exit exactly the active rule set in force on entry and propagates the body's own exception (C14_reset_rules_restores/_propagates, names unique per chain); a parse/render that fails at any point has touched the instance only through getRules, so its configuration proper is unchanged, caches stay coherent and every later call behaves as if the failed call never happened (C14_failed_parse_leaves_instance, C14_after_failure_same_behaviour); rules are never lost (C14_rules_never_lost); the generator without try/finally is refuted in Coq. Each run: reset_rules histories on the real MarkdownIt vs the model step by step; fault injection raising 5 exception types (incl. a BaseException) at the k-th invocation of every rule of all four chains, every render rule and highlight, then snapshot + probe comparison against a fresh instance and against outputs recorded before any failure.",
        "Trusted: Coq kernel; facade model tied to main.py/ruler.py by sampled correspondence; 'a parse writes no instance state except Ruler.__cache__' is tested by the fault injector (all crash points of the sampled documents), not proved from source; extraction+driver (sample re-run in-kernel).",
        "DESIGN.md §3 C14",
    ),
    "C13": (
        "proof",
        "Coq proof (invariant over arbitrary schedules of an atomic-action model of Ruler.getRules/__compile__, any number of threads) + bytecode-shape obligation regenerated from /repo + schedule exploration of the real library with sys.monitoring (pre-emption at bytecode/line boundaries, real threads and nested calls)",
        "Theorems for ANY number of threads, ANY request programs and ANY schedule, from a fresh or compiled instance: the shared chain cache is only ever absent or complete, no thread fails, and every getRules returns exactly the solo result (C13_getRules_linearizable, C13_cache_never_partial), wait-free (C13_wait_free); nested calls are particular schedules. The model's atomic actions are tied to the code by an obligation comparing them with the accesses to self.__cache__ in the bytecode of /repo (C13_model_shape_is_code_shape, regenerated by dis on every run); publish-then-fill is refuted in Coq. Everything else a parse touches must be call-local: that is explored on the implementation on every run — call B run to completion at every bytecode boundary inside ruler.py and at (sampled) source-line boundaries anywhere in markdown_it/mdurl during call A, in a second real thread or nested; random fine-grained 2-3 thread schedules; fresh and freshly reconfigured instances; plus fresh-interpreter runs for the first link normalisation of a process. Every call must return its solo result.",
        "Trusted: Coq kernel; CPython GIL atomicity of single attribute/dict/list bytecodes; the model covers Ruler.__cache__ only, thread-locality of the rest of a parse is explored (quick: ~5000 schedules), not proved; sys.monitoring delivers every INSTRUCTION/LINE event of the registered code objects.",
        "DESIGN.md §3 C13",
    ),
    "C15": (
        "proof",
        "Coq proofs by nested induction over tokens / token lists (dict round trip, tree round trip, render fixed point) on hand models of token.py, tree.py, renderer.py + function-level differential correspondence on parser-produced streams",
        "Theorems for ALL tokens and token lists (a superset of the reachable streams): from_dict(as_dict(t)) = t in all four flag combinations (children x as_upstream) at any nesting depth, for attrs dicts with unique keys (C15_dict_roundtrip), hence identical rendering; SyntaxTreeNode(tokens).to_tokens() is the identical sequence whenever the tree builds (C15_tree_roundtrip); render is a fixed point after the first run and changes nothing but attrs (C15_render_repeatable, C15_render_keeps_structure). Each run compares as_dict/from_dict (structure of the dict included), tree build/to_tokens/walk and render of the model with the implementation on ~700 (quick) streams from the real parser under standard and random configurations, and evaluates the property itself on the implementation (round trips in all flag combinations, render twice, walk order, parent/child/sibling links).",
        "Trusted: Coq kernel; hand models tied to the code by the sampled correspondence; walk order and link consistency are object-graph facts checked on the implementation, the model states tree structure only; 'the tree always builds for parser streams' rests on C02 (well-nestedness), checked on the implementation here.",
        "DESIGN.md §3 C15",
    ),
    "C19": (
        "proof",
        "Coq proofs (invariants over the smartquotes scan/stack loop, induction over token lists) on line-by-line models of replacements.py / smartquotes.py / text_join.py + function-level differential correspondence + off/on pipeline comparison on the implementation",
        "Theorems for ALL token lists and ANY quotes option: replacements and smartquotes return a stream of the same length in which every token is unchanged except the content of tokens of type text (C19_replacements_shape, C19_smartquotes_shape); escapes/entities (text_special), code, raw HTML, link tokens are byte-identical (C19_non_text_untouched); text_join merges by type only, so the final stream has the same shape with the typographer on or off (C19_typographer_shape). Each run: the real replace()/smartquotes() vs the model on ~900 (quick) parser-produced streams with 9 quotes settings (empty, multi-character, containing quotes); the property on the implementation: parse off vs on x {replacements, smartquotes, both}: same shape, non-text identical, autolink text identical, smartquotes alone only substitutes straight quotes in place.",
        "Trusted: Coq kernel; models tied by sampled correspondence; regexes of the substitutions regenerated from /repo (CPython's parser, character sets asked of CPython) and interpreted by Base/Regex.v; 'only straight quotes are substituted' and 'autolink text untouched' are checked on the implementation, not yet theorems.",
        "DESIGN.md §3 C19",
    ),
    "C04": (
        "proof",
        "End-to-end Coq theorem on the whole-pipeline model (block parser, inline parser, core chain, renderer): html off => no raw chunk in the output of render / renderInline, for every source and configuration; escapeHtml safety by induction; whole-pipeline + renderer differential correspondence under html-off configurations; strict HTML grammar checker on implementation output",
        "Theorems: with options.html off and no highlight callback, for EVERY source, env, rule configuration (any core chain, any block / inline rule subsets, any maxNesting) and any value of the opaque dependencies, the string returned by render / renderInline is a concatenation of chunks each of which is a fixed renderer literal, '<tag' / '</tag' for one of 26 fixed tag names, or escapeHtml of data - never a raw chunk (C04_render_safe, C04_render_inline_safe; hypotheses shown satisfiable by a concrete configuration and document). Its parts: every token parse() returns and every child of an inline token has a vocabulary tag and is neither html_block nor html_inline (C04_parse_tokens_from_vocabulary: all 11 block rules, all 12 inline rules incl. link-label / image recursion and skipToken, the 4 in-place post-processing rules, replacements / smartquotes / text_join); html_inline tokens need options.html (C04_inline_tokens_from_vocabulary), html_block likewise (C04_block_tags_from_vocabulary); the renderer emits only literals + escaped data on such streams (C04_only_renderer_markup, C04_attrs_escaped); escapeHtml yields no < > double-quote for EVERY string and equals the four replace passes of the source (C04_escape_safe, C04_escape_as_written). Each run: whole-pipeline model vs implementation (HTML, env, exceptions) and renderer model vs implementation under html-off configurations incl. html switched off by item / attribute assignment and html rules force-enabled; implementation output checked by a strict HTML grammar (nesting, tag / attribute vocabulary, escaping) with metacharacters placed in every data slot.",
        "Trusted: Coq kernel; the pipeline model is tied to the code by sampled correspondence only; well-nestedness of inline pairs in the HTML is checked on the implementation (the theorem speaks about chunks, the block stream balance is C02's theorem).",
        "DESIGN.md §3 C04, §8.2",
    ),
    "C17": (
        "proof",
        "Coq proof by induction over strings on the normalize model (all per-line mixtures of LF/CRLF/CR; NUL vs U+FFFD) + correspondence of normalize (direct definition and regenerated regexes vs implementation) + pipeline comparison under encodings + column-constructed tab/space twins",
        "Theorems for ALL strings: every re-encoding of the line ends of a CR-free text (any per-line choice of LF, CR LF, lone CR) normalises to the same string; NUL behaves exactly like U+FFFD; no CR or NUL survives; normalize is idempotent (C17_line_endings, C17_crlf, C17_nul_is_fffd, C17_no_cr_nul_left). Since normalize is the first core rule and everything after reads only state.src, tokens, maps, env and HTML coincide - checked on the implementation for every sampled document under LF / CRLF / CR / mixed and NUL/U+FFFD in standard and random configurations. Tab half (structural tabs == spaces to the next tab stop): proved at the top level for the indentation table - for EVERY document of lines blanks ++ rest ++ LF the recorded indentation column of each line is the tab-stop column width of its blanks, so every column-preserving re-spelling of leading blanks (a tab for the spaces up to the next multiple of four, or the column-exact expansion of every tab) leaves the sCount table and the line count unchanged (C17_indent_is_column_width, C17_respelling_keeps_columns, C17_tab_expansion_keeps_columns, C17_expansion_column_exact; Lemmas/TabCols.v); that all block rules read indentation only through this table and the blanks behind container markers is decided in this run by exploration on the implementation with column-exact constructed twins (leading-whitespace family (a), container-segment family (b) incl. nested quotes continued over several lines), compared modulo the blanks the property exempts; its column-arithmetic theorems belong to the block model and are not claimed yet.",
        "Trusted: Coq kernel; normalize model tied by correspondence; tab half by exploration (partial); comparison of verbatim blocks / code spans / raw inline HTML / image labels / titles is modulo the spelling of blanks (DESIGN.md reading).",
        "DESIGN.md §3 C17",
    ),
    "C18": (
        "proof",
        "Coq proofs of option locality on the renderer chunk model (all token lists) + differential correspondence of the renderer under all option combinations + context / parseInline exploration on the implementation",
        "Context half, paragraph context PROVED on the model: for EVERY line s that starts with a letter, ends in a non-blank and has no line-end character, and every configuration whose block chain contains the paragraph rule, parse(s LF) is paragraph_open, inline, paragraph_close where the inline token has content s and exactly the children that parseInline(s) gives its single inline token (C18_paragraph_is_parse_inline: both are join(inline_parse s); the proof runs the block parser - line tables, every rule of the chain failing on the line, the paragraph rule, the line loop - symbolically). Renderer half, theorems for ALL token lists: with xhtmlOut on vs off the tokens left behind are equal and the outputs coincide once the void-tag spellings are erased (C18_xhtmlOut_local); breaks only selects the hard-break spelling for softbreak tokens (C18_breaks_local); breaks/langPrefix/highlight are read for softbreak and fence tokens only (C18_option_frame); langPrefix changes only escaped data inside a fence (C18_langPrefix_local). Each run: implementation vs model under random (xhtmlOut, breaks, langPrefix, 4 highlighters); on the implementation: renderer-only options leave the token stream untouched and change HTML only in their place; parseInline/renderInline == the paragraph's children/HTML on single-paragraph inputs; the same guarded inline text yields the same inline tokens in paragraph, heading, list item, block quote and table cell, and when it occurs twice in a document.",
        "Trusted: Coq kernel; renderer / pipeline model tied by correspondence; the other contexts (heading, list item, block quote, table cell, repeated occurrence) are exploration (partial).",
        "DESIGN.md §3 C18",
    ),
    "C05": (
        "proof",
        "End-to-end Coq theorem on the whole-pipeline model (every URL producer incl. references through env) + induction over strings on a model of mdurl.encode + case analysis on the validator + function-level and whole-pipeline differential correspondence + producer exploration on the implementation",
        "Theorems: for EVERY source, every configuration and every env whose recorded destinations are themselves validated, each href / src attribute on each token parse() / parseInline() returns and on each child of an inline token is empty or equal to normalizeLink(x) for some x, with validateLink accepting it - whichever producer made it: inline destination, image, autolink, reference looked up in env, definition recorded by the block parser - and the env returned is again of that form (C05_parse_urls_validated, C05_parse_inline_urls_validated; all block rules, all inline rules with label / image recursion and skipToken, post-processing, core rules). Such a URL consists of URL-safe ASCII only: letters, digits, ;/?:@&=+$,-_.!~*'()# and % - never a blank, control, quote, angle bracket, backslash, backtick or non-ASCII character (C05_good_url_chars, C05_encode_alphabet, C05_url_chars_are_inert, for ALL strings, mdurl's re-formatting being an arbitrary function). A URL over that alphabet accepted by the validator (direct definition) does not begin, case-insensitively, with vbscript: javascript: file:, and with data: only as data:image/gif|png|jpeg|webp; (C05_validated_scheme, C05_emitted_url_safe). Each run: mdurl.encode and validateLink (direct and regenerated-regex forms, which the model's rules use) vs the implementation on ~3000 strings incl. every scheme spelling; whole-pipeline correspondence; and on the implementation all hrefs/srcs on tokens and re-parsed from rendered HTML for 19 producer forms x spellings (incl. references to blanks / controls at the end of a destination, scheme + whitelisted-data-prefix payloads) x configurations, plus 'a rejected construct stays as literal text'.",
        "Trusted: Coq kernel; pipeline / encode / validateLink models tied by sampled correspondence; equality of the regex form and the direct form of validateLink is tested each run, not proved; linkify producers not exercisable here (linkify-it-py absent).",
        "DESIGN.md §3 C05, §8.2",
    ),
    "C01": (
        "proof",
        "Coq theorems on the whole-pipeline Gallina model (every unguarded Python read modelled as a raising read, every loop on explicit fuel) + whole-pipeline differential correspondence incl. exception class and termination + totality exploration of the implementation",
        "The model of parse/render (block parser, inline parser, core chain, renderer; coq/Model) raises exactly where an unguarded read of the Python source would and runs every loop on fuel, so 'total' is the statement 'never Raise, never OutOfFuel'. Proved for ALL inputs so far (partial): THE BLOCK PARSER NEVER RAISES - for every source, env and token list and every configuration (options.html on or off, any maxNesting, any enabled subset) that has the paragraph rule and Ruler-shaped terminator chains, ParserBlock.parse returns no exception: every line-table read is in range and every unguarded src[...] read hits a character (C01_block_parse_never_raises; Lemmas/NoRaise.v). The proof carries a table invariant (table lengths, marks inside the source, a line feed at every end mark but the last line's, a non-blank at the logical start of a non-empty line, C01_fresh_tables_invariant) through all 11 rules, getLines, the terminator chains, the nested tokenize at any depth and the line loop; block quote and list rewrites keep it and their restores give back the ORIGINAL tables literally (C01_nested_tokenize_restores_tables); the terminator hypothesis holds for Ruler configurations of the generated rule table (C01_ruler_cfg_term_names_ok). A second invariant (C01_fresh_tables_columns: every sCount entry is at most the columns getLines itself counts over the line's leading blanks) is carried through block quote and list rewrites; it is what makes html_block's getLines(.., blkIndent, True) safe on a blank last line inside containers. The inline parser and the core rules are not covered by this theorem. Also: the block line loop makes progress - one pass over any rule chain containing paragraph ends with some rule succeeded and the cursor strictly advanced inside the line table, and the nested tokenize of block quotes / list items advances too (C01_block_loop_progress, C01_nested_tokenize_progress; Lemmas/MapWhole.v), so the loop cannot spin and 'none of the block rules matched' cannot happen;  numeric character references only reach chr() with a valid code point (C01_entity_chr_safe, C01_entity_codes_nonneg), the renderer never raises on any token list (C01_render_total), skipToken never recurses past maxNesting (C01_skip_token_cap), reads of the line tables inside their range succeed (C01_table_read_in_range) and every read of a fresh StateBlock's tables at a line in [0, lineMax] succeeds for every source (C01_fresh_tables_readable). The whole-pipeline totality theorem is NOT proved: per-rule safety is decided each run by comparing model and implementation on exception class and termination over ~500 (quick) (configuration, API, document) cases, and by exploring the implementation: generated documents x configuration lattice x 4 APIs, ALL pairs of 53 line shapes and sampled 3-4 line sequences, truncated seeds, 40 deep-nesting/long-run families, Unicode white space at every trimming/splitting site, CLI on arbitrary bytes, the documented TypeErrors - each under a wall-clock limit.",
        "Trusted: Coq kernel; hand model tied to the code by sampled correspondence; totality of the inline parser / core rules is exploration, not a theorem (partial); re/str primitives assumed non-raising on str; linkify-it-py absent.",
        "DESIGN.md §3 C01",
    ),
    "C02": (
        "proof",
        "Coq proofs on the stream / inline post-processing / push models (all token lists) + whole-pipeline differential correspondence + executable well-formedness predicate on implementation streams",
        "Block half PROVED on the model for EVERY source, env and configuration (and any value of the opaque dependencies): what ParserBlock.parse appends to the token list is a balanced segment at depth 0 - openers and closers pair up in nested fashion, every level is the running depth, nesting sums to zero, the state level returns to 0 (C02_block_stream_balanced, C02_nested_tokenize_balanced, C02_balanced_levels); the proof covers all 11 block rules incl. recursive containers, table bodies, terminator chains, after-the-fact map / hidden updates, the line loop and the recursion on container depth. Inline half, tokenizer phase PROVED for every source / configuration: ParserInline.tokenize at any nesting depth returns the level to where it was and appends a segment in which link_open / link_close pair up like brackets (matching kind) around nesting-0 tokens - all 12 tokenizer rules, label / image recursion, skipToken, pending-text flushing (C02_inline_tokenize_nested); fragments_join keeps that nesting (C02_fragments_join_keeps_nesting), so the whole inline parser's output is nested whenever the emphasis / strikethrough post-rules are not in the chain (C02_inline_parse_nested). NOT proved: that the pairs those two post-rules create (em, strong, s) never cross - that needs the non-crossing invariant of balance_pairs - decided by the predicate on implementation streams and the correspondence. Stream theorems for ALL token lists: fragments_join leaves levels equal to depth and no adjacent text tokens (C02_fragments_join_wf), text_join leaves no text_special placeholder (C02_text_join_no_special), StateBlock.push assigns level = depth (C02_block_push_level), a tree that builds flattens back to the identical stream (C02_tree_roundtrip). That every inline rule pushes balanced segments (and open/close pairing by type and tag) is not yet a theorem: it is carried each run by the whole-pipeline correspondence (model tokens = implementation tokens) and by the well-formedness predicate (nesting balance, level = depth, open/close pairing by type/tag/markup, inline children only on inline tokens, tree constructibility) evaluated on ~2000 (quick) implementation streams under random rule subsets, maxNesting cut-offs and typographer settings.",
        "Trusted: Coq kernel; models tied by sampled correspondence; inline producer side and type/tag pairing by exploration (partial).",
        "DESIGN.md §3 C02",
    ),
    "C03": (
        "proof",
        "Coq theorem on the whole block-parser model (every map in range and non-empty, for every source / configuration) + whole-pipeline differential correspondence incl. maps + source-map predicate on implementation streams",
        "Theorems. WHOLE BLOCK PARSER (C03_block_parse_maps): for EVERY source, env and every configuration that has the paragraph rule and whose named terminator chains hold only rules with a silent mode (proved for every Ruler-compiled configuration of the generated rule table, C03_ruler_cfg_silent_terms), every token ParserBlock.parse appends carries a map [b, e) with 0 <= b < e <= lineMax or none, and the cursor ends inside the line table. The proof is a contract per rule (C03_rule_contract: on success the cursor moves strictly forward, stays inside the table, appended maps lie in [startLine, new line]; on failure / silent mode the state comes back unchanged) for all 11 rules incl. block quote and list (tables rewritten and restored, after-the-fact map patches, nested tokenize progress so container maps are non-empty, C03_tokenize_contract), table (tbody / table placeholders) and reference (its line counter is bounded by the line feeds of the lines read: a table invariant - no line feed between a start mark and its end mark - holds for fresh tables, C03_fresh_tables_invariant, and is kept by every rewrite). Also: line tables of a fresh StateBlock well formed (C03_line_tables_well_formed); per-leaf-rule forms (C03_*_maps). Not theorems: maps start / end on non-blank lines, sibling order, coverage of every non-blank line, inline-content line correspondence - these are decided by the map predicate on implementation streams and the correspondence (maps are part of the compared token dicts).",
        "Trusted: Coq kernel; block model tied by sampled correspondence; the rest of the map law (blank-line ends, sibling order, coverage) by exploration (partial).",
        "DESIGN.md §3 C03",
    ),
    "C08": (
        "proof",
        "Coq proofs on the block model (thematic break markup/count) + whole-pipeline correspondence + verbatim-content oracle on the implementation",
        "Theorems on the model, for EVERY state (any nesting, any table contents): getLines returns, line for line of the range, k spaces ++ src[first : end of line] where every dropped position holds a blank or lies in the container prefix, k <= 3 and k > 0 only directly after a dropped tab (C08_get_lines_verbatim); the code, fence and html_block rules set their content to exactly getLines over the lines of their map (C08_code_block_content, C08_fence_content_markup_info, C08_html_block_content); fence markup = the run of marker characters at the start of its line and info = the rest of that line (C08_fence_markup_is_marker_run); ATX heading markup = the run of 1-6 # the line starts with and the inline content a stripped slice behind it (C08_heading_markup); a code span has equal-length all-backtick opener and closer and holds the text between them with line feeds as spaces and the CommonMark padding strip (C08_code_span_content); an hr token's markup is its marker character repeated exactly as often as it occurs on the line (C08_hr_markup, C08_hr_count; the defect repaired in /repo is the counter-example of the old code). Not theorems: list / block quote markup, ordered-list start, that the closing backtick string is the FIRST of its length. Verbatim preservation as a whole is also decided each run on the implementation with an independent oracle incl. the exact fence-indentation rule under quotes-only or lists-only ancestors, over ~2000 (quick) generated documents; the correspondence ties model content/markup/info to the implementation's.",
        "Trusted: Coq kernel; block model tied by sampled correspondence; general verbatim law by exploration (partial).",
        "DESIGN.md §3 C08",
    ),
    "C09": (
        "proof",
        "End-to-end Coq theorem on the inline / pipeline model (renderInline of a backslash-escaped text is escapeHtml of the text) with the escapable table regenerated from /repo + whole-pipeline correspondence on templated documents + literal-text oracle on the implementation in 8 contexts",
        "Theorems: for EVERY text t made of runs of characters the text rule does not stop at and of ASCII punctuation characters (each of the 32 is escapable: C09_every_punct_escapable, finite domain), the source esc(t) in which every punctuation character is preceded by a backslash is tokenized by the inline parser into text / text_special tokens whose concatenated content is exactly t (C09_inline_escaped_text: tokenizer loop, pending-text flushing, all four post-processing rules on a delimiter-free stream), renderInline(esc(t)) = escapeHtml(t) (C09_render_inline_escaped: normalize, inline-mode block rule, inline, text_join, renderer), and in the paragraph context render(esc(t) LF) = <p>escapeHtml(t)</p> LF for t starting with a letter (C09_render_paragraph_escaped: the block parser run symbolically on the one-line document) - for every configuration in which the escape rule is reached through text / newline / linkify(off) only, whatever inline rules follow it and whichever post-processing rules are enabled; hypotheses shown satisfiable on a concrete configuration and text. The escape rule itself: C09_escape_rule. Not theorems: the character-reference form ref(t), and the other block contexts (heading, emphasis, link text, image alt, title, table cell): decided each run on the implementation - for generated t (all punctuation, blanks, non-ASCII, controls) esc(t) and ref(t) must render as exactly escapeHtml(t) in 8 contexts under three configurations. Known finding (listed, reported each run): a table cell whose text ends in a backslash.",
        "Trusted: Coq kernel; inline / pipeline model tied by sampled correspondence; block contexts and the reference form by exploration (partial).",
        "DESIGN.md §3 C09, §8.2",
    ),
    "C10": (
        "proof",
        "Coq theorems on the block and inline parser models (every token kind needs a producer in the chain; table / strikethrough inert) + whole-pipeline correspondence under random rule subsets + switch-effect oracles on the implementation",
        "Theorems: for EVERY source and configuration every token the block parser appends has the (type, tag) of the vocabulary of a rule that is in the chain - no table tokens without the table rule, no headings without heading/lheading, no html_block without its rule and options.html (C10_block_kinds_need_producer; its side condition 'terminator chains are sub-lists of the main chain' holds for every configuration compiled from a Ruler state, C10_ruler_chains); likewise every token the inline parser leaves is text or of a kind one of whose producers is in the chain - text_special: escape or entity, softbreak: newline, hardbreak: newline or escape, code_inline: backticks, link_open/close: link or autolink, image: image, html_inline: options.html, s_*: the strikethrough post-rule, em / strong: the emphasis post-rule (C10_inline_kinds_need_producer, C10_no_backticks_no_code_inline; Lemmas/InlineProducers.v: all 12 tokenizer rules, label / image recursion, skipToken, the post-processing chain). For ALL states: the table rule returns False without touching the state on any source that contains no '|' (C10_table_inert); the strikethrough tokenizer and post-processor do nothing on input without '~' (C10_strikethrough_inert, C10_strikethrough_post_inert). Decided on the implementation each run: token kinds (inline kinds included) vs the producer map of the enabled rules under random rule subsets of every preset; table / strikethrough on vs off on inputs without their trigger (incl. paragraph + delimiter-row-like lines); inline_definitions / store_labels on vs off (tokens modulo definition tokens and label meta, env, HTML modulo line breaks after tags); each option set by constructor, item assignment and (for the nine core options) attribute assignment.",
        "Trusted: Coq kernel; models tied by sampled correspondence under random rule subsets; whole-chain statements (kinds need producer, option routes) by exploration (partial).",
        "DESIGN.md §3 C10",
    ),
    "C16": (
        "proof",
        "Coq proof of the reference rule's env discipline on the block model + whole-pipeline correspondence with seeded env + history / label / form oracles on the implementation",
        "Theorems: for a WHOLE parse - every source, env, configuration, core chain - the definitions already in env stay exactly where they are (a prefix of the new list: the first definition of a label wins, across parses too), each new entry is appended under a label that was absent, later definitions of a present label are appended to duplicate_refs, nothing is removed, every recorded destination is a validated normalizeLink result (C16_parse_env_extends, C16_block_parse_env_extends: all 11 block rules incl. containers and terminator chains). For ALL states the reference rule records exactly one definition with the map of its own lines per successful call and leaves env alone otherwise (C16_reference_env). The document-level statements are decided each run on the implementation: env histories (fresh / seeded once / seeded twice) vs one parse of (R + blank)* + D compared on HTML, tokens with shifted maps, all records (references + duplicate_refs) with maps in combined coordinates and winners; label variants (case folding incl. sharp s, sigma, digraphs, Kelvin sign, dotted i; blank runs incl. one line break) resolve; reference form = inline form for (text, destination, title) triples incl. escapes, entities, backslash-newline, links and images. The correspondence runs the model with the same seeded env and compares the resulting env.",
        "Trusted: Coq kernel; model tied by sampled correspondence; normalizeReference's case mapping is an opaque recorded table in the model; document-level equivalence by exploration (partial).",
        "DESIGN.md §3 C16",
    ),
    "C06": (
        "proof",
        "Coq proofs on the block model (row-level agreement of block quote marker stripping and line scanning) + whole-pipeline correspondence on wrapped documents + container-law oracle on the implementation",
        "Theorems for ALL sources: for a tab-free quoted line '>' ' ' blank^k rest the row that the block quote rule writes into the line tables is (bMarks+2, tShift=k, sCount=k, bsCount+sc+2, empty iff nothing follows) (C06_quote_prefix_row), which is the row the line scanner computes for the un-prefixed line blank^k rest shifted two characters right (C06_scanned_text_row, C06_scanned_blank_row): line by line the nested block loop sees the tables of the un-quoted document. The document-level laws (nested loop produces the same tokens, levels +1/+2, same maps, content, env; list item form modulo hidden, lazy-line leading blanks, thematic-break precedence) are decided each run on the implementation for generated tab-free documents with 0-3 random wraps applied first (containers within containers), quote law under four configurations, item law with 8 markers x 1-4 spaces; the correspondence ties the model to the implementation on the wrapped documents.",
        "Trusted: Coq kernel; block model tied by sampled correspondence; document-level law by exploration (partial).",
        "DESIGN.md §3 C06",
    ),
    "C07": (
        "proof",
        "Coq proofs on the line scanner (split at any point, nothing remembered across a line feed) + whole-pipeline correspondence on concatenations + concatenation-law oracle on the implementation",
        "Theorems: for EVERY newline-terminated A and every B, the line tables (bMarks, eMarks, tShift, sCount, bsCount, lineMax) of A + blank line + B are those of A followed by those of B with offsets moved by len(A)+1, the sentinel row of A doubling as the blank row (C07_tables_concat): the block loop starts B on exactly the rows it would see alone. The scanner is a left fold that splits at any point (C07_line_scan_splits) and after a line feed is back in its initial mode (C07_scanner_forgets_at_lf). That no rule leaks container context, tight flags or parentType across top-level blocks is decided each run on the implementation: generated pairs (A, B) incl. hand families aimed at leaks (tables followed directly by list lines, lists with empty first items, failed setext headings / definitions before lists), side conditions evaluated as the property states them, blocks(A + blank + B) = blocks(A) ++ shifted blocks(B) on block tokens and inline content under commonmark, js-default, commonmark+table and random rule subsets (container maps compared with trailing blank lines trimmed).",
        "Trusted: Coq kernel; block model tied by sampled correspondence; document-level law by exploration (partial).",
        "DESIGN.md §3 C07",
    ),
    "C20": (
        "other",
        "Coq proofs of the parser's guards on the model (skipToken memoisation, nesting cap, block line loop at most once per line) + guard-state correspondence (memo table, backtick closer cache) model vs implementation + deterministic call-count measurement of growth on the implementation",
        "Cost is not a functional property of the model, so family-level linearity is measured, not proved. Proved for ALL states: a skipToken hit runs no rule, a miss caches its position - the maxNesting bail-out included - so the body runs at most once per position, and at the cap the tail is skipped rather than recursed into (C20_skip_token_hit, C20_skip_token_memo, C20_nesting_cap); and the block line loop runs at most once per line - whenever ParserBlock.tokenize's loop returns at all it returns the same state for every fuel above the number of lines left, because each pass over the rule chain advances the cursor (C20_block_loop_once_per_line, for every source and configuration with the paragraph rule), so the number of rule-chain passes is linear in the number of lines; the cost of one pass (terminator scans) is what the known findings are about. Each run: the guard state after ParserInline.tokenize (memo table, backtick cache, scanned flag) of model and implementation must coincide on three small sizes of each of ~85 scalable input families, and the implementation's calls into markdown_it (sys.setprofile) are counted at L, 2L, 4L per family x {commonmark, js-default+typographer}: a doubling may multiply the work by at most 2.4 (plus constant slack) and the Python stack depth may not grow beyond what maxNesting allows. Known finding (listed, reported each run): consecutive reference definitions are quadratic.",
        "Trusted: Coq kernel; inline model tied by sampled correspondence incl. guard state; growth is a measurement at finitely many lengths (quick L=700, thorough L=12000).",
        "DESIGN.md §3 C20",
    ),
}

NOT_YET = {}


def main():
    props = [json.loads(l) for l in (V / "properties.jsonl").read_text().splitlines() if l.strip()]
    extra = {}
    ef = V / "harness" / "manifest_table.json"
    if ef.exists():
        extra = json.loads(ef.read_text())
    checks = []
    na = []
    for p in props:
        pid = p["id"]
        ent = extra.get("claimed", {}).get(pid) or CLAIMED.get(pid)
        if ent:
            cat, tech, text, note, ref = ent
            checks.append({
                "property_id": pid,
                "quick_cmd": f"./check {pid} --tier quick",
                "thorough_cmd": f"./check {pid} --tier thorough",
                "evidence_file": f"/verif/evidence/{pid}.json",
                "replay_cmd_template": "./check replay {path}",
                "engine": "coq-model",
                "level_claimed": {"category": cat, "text": text, "design_ref": ref},
                "level_note": note,
                "technique": tech,
            })
        else:
            reason = extra.get("not_applicable", {}).get(pid) or NOT_YET.get(pid) or (
                "not claimed yet: the model slice and theorems for this property (DESIGN.md §3) are not built at this commit; "
                "the technique applies and the property moves to 'checks' once its Props file and correspondence run")
            na.append({"property_id": pid, "reason": reason})
    man = {
        "version": 1,
        "setup_cmd": "./build.sh",
        "hooks": {
            "guard": "MARKDOWN_IT_PY_VERIF",
            "enable": "no source hooks: all instrumentation (rule wrapping, sys.monitoring pre-emption, fault injection, call counting) is attached by the harness through public extension points; checks export MARKDOWN_IT_PY_VERIF=1 and PYTHONPATH=/repo",
            "baseline_off_cmd": "/venv/bin/python /verif/harness/baseline.py",
            "source_commits": [],
            "add_only": True,
        },
        "engines": [{
            "name": "coq-model",
            "path": "/verif/coq",
            "serves_properties": [c["property_id"] for c in checks],
            "kind_free_text": "Coq 8.16.1 development (hand-written Gallina model + generated tables + theorems in Props/), extracted OCaml driver bin/mdmodel, Python harness for translators, correspondence, search, evidence",
        }],
        "checks": checks,
        "not_applicable": na,
        "notes": "fix: commits in /repo are listed in KNOWN_FINDINGS.json (status fixed); known findings there are matched by specific witness. See DESIGN.md.",
    }
    (V / "MANIFEST.json").write_text(json.dumps(man, indent=1) + "\n")
    try:
        import jsonschema
        jsonschema.validate(man, json.load(open("/root/.vp/MANIFEST.schema.json")))
        print("MANIFEST.json valid;", len(checks), "claimed,", len(na), "not claimed")
    except ImportError:
        print("written (jsonschema not available for validation)")


if __name__ == "__main__":
    main()
