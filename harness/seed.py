"""Seeded-defect bookkeeping.
  seed.py import  <Cxx> <A|B>     confirm an agent-made change from /tmp/seed/<Cxx>_out (suite unchanged,
                                  demo fails with / passes without) and store it as /verif/seeded/<Cxx>-<A|B>/
  seed.py run     <Cxx>-<A|B> [check-id ...] [--tier quick]
                                  apply the stored patch to /repo, run the named checks (default: the property
                                  it breaks), undo the patch, record which checks raised a VIOLATION
  seed.py table                   summary of all stored seeds
"""
from __future__ import annotations

import json
import os
import shutil
import subprocess
import sys
from pathlib import Path

V = Path("/verif")
SEEDED = V / "seeded"
PY = "/venv/bin/python"


def sh(cmd, cwd=None, env=None, timeout=1800):
    p = subprocess.run(cmd, shell=True, cwd=cwd, env=env, capture_output=True, text=True, timeout=timeout)
    return p.returncode, p.stdout + p.stderr


def run_demo(demo: Path, tree: str):
    env = dict(os.environ, PYTHONPATH=tree, PYTHONHASHSEED="0")
    rc, out = sh(f"{PY} {demo.name}", cwd=str(demo.parent), env=env, timeout=900)
    return rc, out[-1500:]


def do_import(pid: str, ab: str):
    src = Path(f"/tmp/seed/{pid}_out")
    patch = src / f"patch_{ab}.diff"
    demo = src / f"demo_{ab}.py"
    meta = json.loads((src / f"meta_{ab}.json").read_text())
    wt = f"/tmp/seedverify_{pid}_{ab}"
    sh(f"git -C /repo worktree remove --force {wt}")
    rc, out = sh(f"git -C /repo worktree add --detach {wt} HEAD")
    assert rc == 0, out
    try:
        rc, out = sh(f"git apply --check {patch} && git apply {patch}", cwd=wt)
        assert rc == 0, "patch does not apply: " + out
        rc, out = sh(f"{PY} -m pytest -q -p no:cacheprovider tests 2>&1 | tail -1", cwd=wt)
        suite = out.strip().splitlines()[-1]
        rc_with, out_with = run_demo(demo, wt)
        sh("git checkout -- . && git clean -fdq", cwd=wt)
        rc_without, out_without = run_demo(demo, wt)
    finally:
        sh(f"git -C /repo worktree remove --force {wt}")
        shutil.rmtree(wt, ignore_errors=True)
    ok = ("875 passed" in suite and "32 failed" in suite and rc_with != 0 and rc_without == 0)
    print(f"{pid}-{ab}: suite='{suite}' demo_with={rc_with} demo_without={rc_without} -> {'CONFIRMED' if ok else 'REJECTED'}")
    if not ok:
        print(out_with[-600:], out_without[-600:])
        return 1
    d = SEEDED / f"{pid}-{ab}"
    d.mkdir(parents=True, exist_ok=True)
    shutil.copy(patch, d / "patch.diff")
    shutil.copy(demo, d / "demo.py")
    for extra in src.glob("*.py"):
        if not extra.name.startswith("demo_"):
            shutil.copy(extra, d / extra.name)
    # the demo may import its helper by name
    (d / "meta.json").write_text(json.dumps({
        "property": pid, "summary": meta.get("summary"), "needs": meta.get("needs"), "witness": meta.get("witness"),
        "files": meta.get("files"),
        "confirmed": {"suite_with_patch": suite, "demo_with_patch_exit": rc_with, "demo_without_patch_exit": rc_without,
                      "how": "scratch worktree of /repo HEAD outside /repo and /verif: git apply, full pytest run, demo with PYTHONPATH=worktree, git checkout, demo again; worktree removed"},
        "detection": {},
    }, indent=1))
    return 0


def do_run(name: str, checks: list[str], tier: str):
    d = SEEDED / name
    meta = json.loads((d / "meta.json").read_text())
    checks = checks or [meta["property"]]
    rc, out = sh("git -C /repo status --porcelain")
    assert out.strip() == "", "/repo is not clean: " + out
    rc, out = sh(f"git -C /repo apply {d / 'patch.diff'}")
    assert rc == 0, out
    res = {}
    # evidence files are rewritten by every run: keep the ones of the unchanged tree
    saved = {}
    for c in checks:
        ef = V / "evidence" / f"{c}.json"
        saved[c] = ef.read_text() if ef.exists() else None
    try:
        for c in checks:
            rc, out = sh(f"./check {c} --tier {tier}", cwd=str(V), timeout=3600)
            vio = [l for l in out.splitlines() if l.startswith("VIOLATION")]
            res[c] = {"exit": rc, "violation_lines": vio[:3], "tail": out.strip().splitlines()[-1:] }
            print(f"{name} vs {c}: exit={rc} {'DETECTED' if vio and rc == 1 else 'missed'} {vio[:1]}")
    finally:
        sh("git -C /repo checkout -- . && git -C /repo clean -fdq markdown_it")
        for c, txt in saved.items():
            ef = V / "evidence" / f"{c}.json"
            if txt is None:
                ef.unlink(missing_ok=True)
            else:
                ef.write_text(txt)
    meta.setdefault("detection", {})
    for c, r in res.items():
        meta["detection"][c] = {"tier": tier, "detected": bool(r["violation_lines"]) and r["exit"] == 1,
                                "violation": r["violation_lines"][:1]}
    (d / "meta.json").write_text(json.dumps(meta, indent=1))
    return 0


def do_table():
    for d in sorted(SEEDED.iterdir()):
        m = d / "meta.json"
        if not m.exists():
            continue
        meta = json.loads(m.read_text())
        det = meta.get("detection", {})
        s = ", ".join(f"{c}:{'Y' if v['detected'] else 'n'}" for c, v in det.items()) or "not run"
        print(f"{d.name:8s} {s:30s} {(meta.get('summary') or '')[:110]}")


if __name__ == "__main__":
    a = sys.argv[1:]
    if a[0] == "import":
        sys.exit(do_import(a[1], a[2]))
    if a[0] == "run":
        tier = "quick"
        if "--tier" in a:
            i = a.index("--tier")
            tier = a[i + 1]
            del a[i:i + 2]
        sys.exit(do_run(a[1], a[2:], tier))
    if a[0] == "table":
        do_table()
