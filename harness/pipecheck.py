"""Pipeline-level correspondence shared by the parser properties: the whole-pipeline Gallina
model (coq/Model/Pipeline.v) vs the implementation on the same (configuration, API, source,
env), compared on token dicts / HTML / env / exception class."""
from __future__ import annotations

from common import run_kernel, run_model, supported
import blockrun
import configs


def correspond(cases, tag, kernel_sample=30, support=supported):
    """cases: list of (cfg, api, src, env or None).  Returns (n_run, disagreements, kn, kbad, lines)"""
    lines, exps, kept = [], [], []
    for cfg, api, src, env in cases:
        md = configs.make_md(cfg)
        if not support(md):
            continue
        try:
            src.encode("utf-8")
        except UnicodeEncodeError:
            continue
        try:
            line, exp = blockrun.run_pipe_impl(md, api, src, None if env is None else dict(env))
        except TypeError:
            continue
        lines.append(line)
        exps.append(exp)
        kept.append((cfg, api, src))
    out = run_model(lines)
    dis = []
    for o, e, (cfg, api, src) in zip(out, exps, kept):
        m = blockrun.canon_pipe_model(o, api)
        if m != e:
            dis.append({"config": cfg, "api": api, "src": src,
                        "implementation": (e if e[0] != "ok" else "ok")[:1], "model": (m if m[0] != "ok" else "ok")[:1],
                        "what": "exception/termination differs" if m[0] != e[0] else "results differ"})
    ks = list(zip(lines, out))[:: max(1, len(lines) // kernel_sample)] if lines else []
    kn, kbad = run_kernel(ks, tag)
    return len(lines), dis, kn, kbad, lines
