"""Pipeline-level correspondence shared by the parser properties: the whole-pipeline Gallina
model (coq/Model/Pipeline.v) vs the implementation on the same (configuration, API, source,
env), compared on token dicts / HTML / env / exception class."""
from __future__ import annotations

import os

from common import run_kernel, run_model, supported
import blockrun
import configs


# ---- how much of the implementation the correspondence inputs of this process exercised (generator quality) ----
_COV = {"obj": None}


def _cov_start():
    if os.environ.get("VERIF_IMPL_COVERAGE", "1") == "0":
        return
    try:
        import coverage
    except Exception:  # noqa: BLE001
        return
    if _COV["obj"] is None:
        os.environ.setdefault("COVERAGE_CORE", "sysmon")
        _COV["obj"] = coverage.Coverage(data_file=None, include=["/repo/markdown_it/*"], branch=False)
    _COV["obj"].start()


def _cov_stop():
    if _COV["obj"] is not None:
        _COV["obj"].stop()


def impl_coverage_summary():
    """statements inside function bodies of the modelled files that the implementation side of this run's
    correspondence executed (module-level and def lines run at import, before measurement, and are left out)"""
    cov = _COV["obj"]
    if cov is None:
        return None
    import ast
    from pathlib import Path
    files = sorted(str(p) for p in Path("/repo/markdown_it").rglob("*.py"))
    keep = ("rules_block/", "rules_inline/", "rules_core/", "helpers/", "parser_", "renderer.py", "common/utils.py",
            "common/normalize_url.py", "main.py", "token.py")
    out, tot, hit = {}, 0, 0
    for f in files:
        rel = f.split("/markdown_it/", 1)[1]
        if not any(k in rel for k in keep) or "linkify" in rel:
            continue
        try:
            _, stmts, _, missing, _ = cov.analysis2(f)
            tree = ast.parse(Path(f).read_text())
        except Exception:  # noqa: BLE001
            continue
        body = set()
        for fn in ast.walk(tree):
            if isinstance(fn, (ast.FunctionDef, ast.AsyncFunctionDef)):
                for st in fn.body:
                    for n in ast.walk(st):
                        if isinstance(n, ast.stmt) and not isinstance(n, (ast.FunctionDef, ast.AsyncFunctionDef, ast.ClassDef)):
                            body.add(n.lineno)
        st_in = [x for x in stmts if x in body]
        miss_in = [x for x in missing if x in body]
        if not st_in:
            continue
        tot += len(st_in)
        hit += len(st_in) - len(miss_in)
        out[rel] = {"statements": len(st_in), "executed": len(st_in) - len(miss_in), "missing_lines": miss_in[:40]}
    return {"what": "statements inside function bodies of the modelled implementation files executed by the implementation side of this "
                    "run's model-vs-implementation correspondence (linkify files excluded: linkifier absent)",
            "statements": tot, "executed": hit, "percent": round(100.0 * hit / max(1, tot), 1), "files": out}


def correspond(cases, tag, kernel_sample=30, support=supported):
    """cases: list of (cfg, api, src, env or None).  Returns (n_run, disagreements, kn, kbad, lines)"""
    lines, exps, kept = [], [], []
    _cov_start()
    for cfg, api, src, env in cases:
        md = configs.make_md(cfg)
        if not support(md):
            continue
        try:
            src.encode("utf-8")
        except UnicodeEncodeError:
            continue
        try:
            line, exp = blockrun.run_pipe_impl(md, api, src, None if env is None else dict(env))
        except TypeError:
            continue
        lines.append(line)
        exps.append(exp)
        kept.append((cfg, api, src))
    _cov_stop()
    out = run_model(lines)
    dis = []
    for o, e, (cfg, api, src) in zip(out, exps, kept):
        m = blockrun.canon_pipe_model(o, api)
        if m != e:
            dis.append({"config": cfg, "api": api, "src": src,
                        "implementation": (e if e[0] != "ok" else "ok")[:1], "model": (m if m[0] != "ok" else "ok")[:1],
                        "what": "exception/termination differs" if m[0] != e[0] else "results differ"})
    ks = list(zip(lines, out))[:: max(1, len(lines) // kernel_sample)] if lines else []
    kn, kbad = run_kernel(ks, tag)
    return len(lines), dis, kn, kbad, lines
