"""Running the real block parser (and later the whole pipeline) with the opaque functions
recorded, and encoding the same case for the model."""
from __future__ import annotations

import re

from common import Opt, guarded, sx, unsx
import tok

CHAINS = ["paragraph", "reference", "blockquote", "list"]


def chain_names(ruler, chain):
    byfn = {id(r.fn): r.name for r in ruler.__rules__}
    return [byfn.get(id(f), "?") for f in ruler.getRules(chain)]


def block_cfg(md):
    r = md.block.ruler
    return [chain_names(r, ""), [[c, chain_names(r, c)] for c in CHAINS],
            "code" in r.get_active_rules(), int(md.options.maxNesting), bool(md.options.get("html")),
            bool(md.options.get("inline_definitions", False))]


class Recorder:
    """records normalizeLink's re-formatting step (argument of mdurl.encode) and the case
    folding of normalizeReference, for the duration of a call on [md]"""

    def __init__(self, md):
        self.md = md
        self.reformat = {}
        self.casefold = {}

    def __enter__(self):
        import mdurl
        import markdown_it.common.normalize_url as nu
        import markdown_it.common.utils as cu
        import sys
        import markdown_it.rules_block  # noqa: F401
        import markdown_it.rules_inline  # noqa: F401
        # the packages re-export functions named like the modules: take the modules themselves
        rb = sys.modules["markdown_it.rules_block.reference"]
        rl = sys.modules["markdown_it.rules_inline.link"]
        ri = sys.modules["markdown_it.rules_inline.image"]
        self._mods = (nu, rb, rl, ri, mdurl, cu)
        self._enc = mdurl.encode
        self._norm = nu.normalizeLink
        self._nr = cu.normalizeReference
        cur = {"url": None}
        rec = self

        def enc(string, *a, **kw):
            if cur["url"] is not None and not a and not kw:
                rec.reformat[cur["url"]] = string
            return rec._enc(string, *a, **kw)

        def norm(url):
            cur["url"] = url
            try:
                return rec._norm(url)
            finally:
                cur["url"] = None

        def nref(s):
            out = rec._nr(s)
            rec.casefold[re.sub(r"\s+", " ", s.strip())] = out
            return out
        mdurl.encode = enc
        nu.normalizeLink = norm
        self._saved = [(m, getattr(m, "normalizeReference")) for m in (rb, rl, ri) if hasattr(m, "normalizeReference")]
        for m, _ in self._saved:
            m.normalizeReference = nref
        return self

    def __exit__(self, *a):
        nu, rb, rl, ri, mdurl, cu = self._mods
        mdurl.encode = self._enc
        nu.normalizeLink = self._norm
        for m, f in self._saved:
            m.normalizeReference = f

    def tables(self):
        return [[[k, v] for k, v in self.reformat.items()], [[k, v] for k, v in self.casefold.items()]]


def enc_env(env):
    def refs(d):
        return [[k, v.get("title", ""), v.get("href", ""), v["map"][0], v["map"][1]] for k, v in d.items()]
    r = env.get("references")
    d = env.get("duplicate_refs")
    return [Opt(None if r is None else refs(r)),
            Opt(None if d is None else [[x["label"], x.get("title", ""), x.get("href", ""), x["map"][0], x["map"][1]] for x in d])]


def canon_env_py(env):
    r = env.get("references")
    d = env.get("duplicate_refs")
    return [None if r is None else [[k, v.get("title", ""), v.get("href", ""), v["map"][0], v["map"][1]] for k, v in r.items()],
            None if d is None else [[x["label"], x.get("title", ""), x.get("href", ""), x["map"][0], x["map"][1]] for x in d]]


def canon_env_model(m):
    def refs(x):
        return None if not x else [[tok.s_of(r[0]), tok.s_of(r[1]), tok.s_of(r[2]), r[3], r[4]] for r in x[0]]
    return [refs(m[0]), refs(m[1])]


def normalize_src(src):
    from markdown_it.rules_core import normalize
    from markdown_it.rules_core.state_core import StateCore
    st = StateCore(src, None, {})
    normalize(st)
    return st.src


def run_block_impl(md, src, env=None):
    """ParserBlock.parse on the normalised source.  Returns (case line for the model, expected)"""
    env = {} if env is None else env
    nsrc = normalize_src(src)
    env_in = enc_env(env)
    tokens = []
    with Recorder(md) as rec:
        try:
            guarded(md.block.parse, nsrc, md, env, tokens)
            exp = ["ok", [tok.canon_py_token(t) for t in tokens], canon_env_py(env)]
        except Exception as e:  # noqa: BLE001
            exp = ["exc", type(e).__name__]
    line = sx([30, [block_cfg(md), nsrc, env_in] + rec.tables()])
    return line, exp


EXC = {1: "IndexError", 2: "KeyError", 3: "ValueError", 4: "TypeError", 5: "AttributeError", 6: "AssertionError",
       7: "RecursionError", 8: "ModuleNotFoundError"}


def canon_block_model(o):
    m = unsx(o)
    if not m:
        return ["bad", o[:200]]
    if m[0] == 0:
        return ["ok", [tok.canon_model_token(x) for x in m[1][0]], canon_env_model(m[1][1])]
    if m[0] == 1:
        return ["exc", EXC.get(m[1], str(m[1]))]
    return ["outoffuel"]


# ---------------------------------------------------------------- whole pipeline

def inline_cfg(md):
    return [chain_names(md.inline.ruler, ""), chain_names(md.inline.ruler2, ""), int(md.options["maxNesting"]),
            bool(md.options.get("html")), bool(md.options.get("linkify")), bool(md.options.get("store_labels", False))]


def hl_code(md):
    h = md.options.get("highlight")
    return getattr(h, "code", 0) if h else 0


def quotes_list(md):
    q = md.options.get("quotes", "“”‘’")
    return list(q) if isinstance(q, str) else list(q)


def pipe_cfg(md):
    return [chain_names(md.core.ruler, ""), block_cfg(md), inline_cfg(md), bool(md.options.get("typographer")),
            quotes_list(md), bool(md.options.get("linkify")),
            [bool(md.options.get("xhtmlOut")), bool(md.options.get("breaks")), md.options.get("langPrefix", "language-"), hl_code(md)]]


class PipeRecorder(Recorder):
    """also records normalizeLinkText"""

    def __enter__(self):
        super().__enter__()
        import markdown_it.common.normalize_url as nu
        self.linktext = {}
        self._nlt = nu.normalizeLinkText
        rec = self

        def nlt(url):
            out = rec._nlt(url)
            rec.linktext[url] = out
            return out
        nu.normalizeLinkText = nlt
        return self

    def __exit__(self, *a):
        import markdown_it.common.normalize_url as nu
        nu.normalizeLinkText = self._nlt
        super().__exit__(*a)

    def tables(self):
        return super().tables() + [[[k, v] for k, v in self.linktext.items()]]


API = {"parse": 0, "render": 1, "parseInline": 2, "renderInline": 3}


def run_pipe_impl(md, api, src, env=None):
    env = {} if env is None else env
    env_in = enc_env(env)
    cfg = pipe_cfg(md)
    with PipeRecorder(md) as rec:
        try:
            r = guarded(getattr(md, api), src, env)
            if api.startswith("parse"):
                exp = ["ok", [tok.canon_py_token(t) for t in r], canon_env_py(env)]
            else:
                exp = ["ok", r, canon_env_py(env)]
        except Exception as e:  # noqa: BLE001
            exp = ["exc", type(e).__name__]
    line = sx([40, [API[api], cfg, src, env_in] + rec.tables()])
    return line, exp


def canon_pipe_model(o, api):
    m = unsx(o)
    if not m:
        return ["bad", o[:200]]
    if m[0] == 0:
        if api.startswith("parse"):
            return ["ok", [tok.canon_model_token(x) for x in m[1][0]], canon_env_model(m[1][1])]
        return ["ok", tok.s_of(m[1][0]), canon_env_model(m[1][1])]
    if m[0] == 1:
        return ["exc", EXC.get(m[1], str(m[1]))]
    return ["outoffuel"]


# ---------------------------------------------------------------- inline guard state (C20 / C01)

def run_guard_impl(md, src, env=None):
    """ParserInline.tokenize on a fresh StateInline; observes the memo table of skipToken, the backtick
    closer cache and its scanned flag (the guards that keep the inline parser linear)"""
    from markdown_it.rules_inline import StateInline
    env = {} if env is None else env
    env_in = enc_env(env)
    with PipeRecorder(md) as rec:
        try:
            state = StateInline(src, md, env, [])
            guarded(md.inline.tokenize, state)
            exp = ["ok", sorted([int(k), int(v)] for k, v in state.cache.items()),
                   sorted([int(k), int(v)] for k, v in state.backticks.items()), bool(state.backticksScanned), int(state.pos),
                   len(state.tokens)]
        except Exception as e:  # noqa: BLE001
            exp = ["exc", type(e).__name__]
    line = sx([41, [inline_cfg(md), src, env_in] + rec.tables()])
    return line, exp


def canon_guard_model(o):
    m = unsx(o)
    if not m:
        return ["bad", o[:200]]
    if m[0] == 0:
        c, b, sc, pos, n = m[1]
        return ["ok", sorted([int(k), int(v)] for k, v in c), sorted([int(k), int(v)] for k, v in b), bool(sc), int(pos), int(n)]
    if m[0] == 1:
        return ["exc", EXC.get(m[1], str(m[1]))]
    return ["outoffuel"]
