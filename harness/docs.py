"""Document generators shared by the checks.  Every choice comes from the rng passed in.

seeds():         spec examples + port fixtures (read from /repo/tests when present)
random_doc():    container-prefix x leaf product grammar + inline grammar + mutation of seeds
inline_text():   one-line inline content from fragments
line_alphabet(): small alphabet of line shapes for bounded-exhaustive enumeration
"""
from __future__ import annotations

import json
import re
from functools import lru_cache
from pathlib import Path

REPO = Path("/repo")


def crossing_family() -> list[str]:
    """opener X, opener Y of another kind, X's closer, a complete pair Z, Y's closer - for all kinds: Y must stay unmatched text (or
    pair up without crossing X), whatever the delimiter bookkeeping skipped over while matching Z"""
    kinds = ["*", "_", "**", "__", "~~"]
    out = []
    for x in kinds:
        for y in kinds:
            if y[0] == x[0]:
                continue
            for z in kinds:
                out.append(f"{x}a {y}b{x} {z}c{z} d{y}\n")
    return out


CODE_OFF = {"preset": "commonmark", "options": {}, "enable": ["table"], "disable": ["code"], "ruler2_off": []}


def code_off_docs() -> list[str]:
    """every block construct at code indentation: with the `code` rule disabled each rule's own "is this an indented code line"
    guard decides (to be run under CODE_OFF)"""
    leaves = ["> q", "---", "- a", "1. a", "[r]: /u", "a\n    ===", "# h", "```\n    x\n    ```", "<div>", "|a|\n    |-|\n    |b|", "a"]
    out = ["    " + x + "\n" for x in leaves]
    out += ["para\n    " + x + "\n" for x in leaves] + ["> para\n>     " + x.replace("\n    ", "\n>     ") + "\n" for x in leaves]
    out += ["- item\n\n      " + x.replace("\n    ", "\n      ") + "\n" for x in leaves]
    out += ["     [r]: /u\n\n[r]\n", "\t# h\n", "   \t- a\n"]
    return out


def corner_docs() -> list[str]:
    """hand-made documents for branches no spec example or fixture reaches (found with coverage.py)"""
    return ['![a](/u "t"  \n', '![a](/u "t" x)\n', '![foo][bar\n\n[foo]: /u\n', '![foo][]\n\n[foo]: /u\n', '![foo] [bar]\n\n[foo]: /u\n',
        '[a]: /u "t" x\n\n[a]\n', "[a]: /u 't'   \n\n[a]\n", '[a](/u "t"  \n', "007. james\n008. bond\n",
        # lone strikethrough markers moved past s_close, odd runs
        "~~~~~a~~~~~\n", "~~~a~~ b\n", "a ~~~b~~ ~~c~~~ d\n", "~~a~~~\n",
        # image / link corner branches
        "![a](\n", "![a](javascript:x)\n", "![a][nolabel]\n\n[b]: /u\n", "[foo][bar\n\n[foo]: /u\n", "<javascript:alert(1)> <vbscript:x>\n",
        "[l](<a\\>b>) [m](a\\ b) [n](a\\)b) [o](/u (a(b))\n", "[l](/u (t(u))\n",
        # tables: escaped pipes, header / body rows at code indentation
        "|a\\|b|c|\n|-|-|\n|x\\|y|z|\n", "    |a|b|\n|-|-|\n", "|a|b|\n|-|-|\n    |c|d|\n", "|a|b|\n|-|-|\n\nafter\n",
        # typographer: inch marks
        '1"" 2" x 3\'\' "q"\n', "```\n", "```\nx\n``"] + [
        # -- shapes that the sixth round of seeded changes needed (each stands for a family the generators now also produce) --
        # character references to a line feed in a definition's title, the definition last in a container / in the document
        '- [foo]: /url "first&#10;second"\n', "intro\n\n> [foo]: /url 'first&#xA;second'\n", '[foo]: /url "a&NewLine;b"\n',
        # a title line that ends in a backslash
        '[r]: /url "one\\\ntwo"\n[s]: /other\n\npara [a][r] and [b][s]\n',
        # open indented fence in a quote, marker-only last line, no final line feed
        ">  ```\n>", ">  ~~~ python\n> x = 1\n>", "> - ```\n>  ", "- >  ```\n  >",
        # image in an image description, with an escape / entity inside
        "![![a\\*b](y)](x)\n", "![badge ![AT&amp;T logo](l.png) here](b.png)\n", "![a&ast;b &amp; c](x)\n", "![&#x2A;](x)\n",
        # odd closing tilde run at the end of a link text
        "[a~~b~~~](x)\n", "- item [~~x ~~y~~~~~](z)\n",
        # characters str.splitlines / str.strip / str.isspace treat as line ends or blanks and Markdown does not
        "foo\x0cbar\n", "# title\u2028more\n\ntext\n", "\u3000# \u898b\u51fa\u3057\n\u672c\u6587\n", "> \u3000# h\n> t\n",
        "*\x1fa*\n", "**a\x1f**\n", "a\x85b\x1cc\x1dd\x1ee\n",
        # thematic breaks with tabs; code spans of blanks only
        "*\t*\t*\n", "- -\t-\n", "***\t\n", "> *\t*\t*\n", "x `   ` y\n", "a ` \n ` b\n", "`    ` `     `\n",
        # pairs of different kinds that close in the wrong order around a complete pair
        "_a **b_ *c* d**\n", "~~a *b~~ **c** d*\n",
        # a table directly followed by an ordered-list line, after a paragraph; a list whose last item is empty
        "some introductory paragraph\n\n| a | b |\n|---|---|\n| 1 | 2 |\n2. item\n", "## Shopping\n- milk\n-\n", "- milk\n-\n",
        # backslash hard break followed by a tab; wrapped definitions indented with tabs
        "foo\\\n\tbar\n", "> foo\\\n  \tbar\n", "[foo]:\n\t/url\n\n[foo]\n", "[foo]: /url\n\t'the title'\n\n[foo]\n", "[foo]:\t/url\n\n[foo]\n",
        # e-mail autolinks with typographic / URL-unsafe characters in the local part
        "<o'brien@example.com> <a{b@example.com> <100%@example.com> <dev--null@example.com>\n",
        # label-only definition line followed by an interrupting block, in an item with a wide content column
        "10. [foo]:\n    ***\n\n    see [foo]\n", "-   [foo]:\n    ```\n    x\n    ```\n",
        # statements no other document of the corpus executed (coverage.py over the correspondence runs)
        "```\nx\n    ```\n```\n", "|a|b|c|\n|-||-|\n", "(c) <http://a.b/(c)> (tm) x +- <me@x.y>\n", '"a *b \'c* d\' e"\n',
        "*\"a* b\" 'c *d' e*\n", "~~a~~~~b~~\n",
        # numeric character references at every boundary of the valid-code-point test
        "&#0; &#8; &#9; &#11; &#12; &#13; &#14; &#31; &#x1F; &#32; &#127; &#128; &#159; &#160; &#xD7FF; &#xD800; &#xDFFF; &#xE000;\n",
        "&#xFDCF; &#xFDD0; &#xFDEF; &#xFDF0; &#xFFFD; &#xFFFE; &#xFFFF; &#x1FFFE; &#x1FFFF; &#x10FFFD; &#x10FFFE; &#x10FFFF; &#x110000; &#1114112; &#x0B; &#x7f;\n",
        "&#1234567; &#12345678; &#x123456; &#x1234567; &#X41; &#x; &#; &#xg; &amp &amp;; &AMP; &Amp;\n",
        # a backslash in front of characters outside the BMP / outside ASCII (nothing to escape: backslash and character both stay)
        "a \\\U0001d4b3b \\\u4e2d \\\xe9 \\\U0001f600*x* \\\ud7ff\\\ue000 \\\U0010ffff\n",
    ] + crossing_family()


@lru_cache(maxsize=1)
def seeds() -> list[str]:
    out: list[str] = []
    f = REPO / "tests/test_cmark_spec/commonmark.json"
    try:
        out += [e["markdown"] for e in json.loads(f.read_text())]
    except Exception:  # noqa: BLE001
        pass
    for name in ("commonmark_extras.md", "tables.md", "strikethrough.md", "typographer.md", "smartquotes.md",
                 "issue-fixes.md", "fatal.md", "normalize.md", "xss.md", "proto.md", "disable_code_block.md"):
        p = REPO / "tests/test_port/fixtures" / name
        try:
            txt = p.read_text()
        except Exception:  # noqa: BLE001
            continue
        # fixture format:  title \n . \n src \n . \n html \n .
        for m in re.finditer(r"\n\.\n(.*?)\n\.\n(.*?)\n\.\n", "\n" + txt, flags=re.S):
            out.append(m.group(1) + "\n")
    # branches of the implementation that no spec example or fixture reaches (measured with coverage.py)
    out += corner_docs()
    if not out:
        out = ["# a\n\n*b* `c`\n\n- d\n> e\n"]
    # de-duplicate, keep order
    seen = set()
    res = []
    for s in out:
        if s not in seen and "\ud800" <= "\ud800":
            seen.add(s)
            res.append(s)
    return res


WORDS = ["a", "b", "foo", "bar", "x y", "é", "ß", "中", "𝒳", "q", "AT&T", "1", "0"]

INLINE_FRAGS = [
    "*", "**", "_", "__", "***", "~~", "~", "`", "``", "` `", "[", "]", "(", ")", "![", "](", "](/u)", "](<u v>)",
    '](/u "t")', "][r]", "[]", "<", ">", "<b>", "</b>", "<a href=\"x\">", "<!-- c -->", "<http://a.b/c>", "<m@x.y>",
    "&amp;", "&#35;", "&#x22;", "&copy;", "&bogus;", "&#0;", "&", "\\*", "\\\\", "\\", "\\[", "\\`", "  \n", "\\\n", "\n",
    "\"", "'", "--", "---", "...", "(c)", "(tm)", "+-", "http://x.y", "www.x.y", "\t", " ", "  ", " ", "​",
    "\x00", "|", "#", "!", ":", "javascript:alert(1)", "%20", "%", "İ", "ſ",
]


def inline_text(rng, n=None) -> str:
    n = n if n is not None else rng.randrange(1, 9)
    parts = []
    for _ in range(n):
        r = rng.random()
        if r < 0.45:
            parts.append(rng.choice(WORDS))
        else:
            parts.append(rng.choice(INLINE_FRAGS))
        if rng.random() < 0.3:
            parts.append(" ")
    return "".join(parts)


SOUP = ["*", "_", "**", "`", "``", "[", "]", "(", ")", "<", ">", "!", "#", "-", "+", "=", "|", "~", "~~", "\\", "&", "&#", "x", "1f", ";", ":", "/",
        "\"", "'", "\n", "\n", "\n\n", " ", "  ", "\t", "    ", "1.", "2)", "a", "b", "http://x.y", "@", "\xa9", "\xa0", "\u2028", "---", "***", "```", ">", "> ",
        "- ", "[a]:", " /u", "&amp;", "&#35;", "<div>", "</div>", "<!--", "-->", "=", "===", ":-:", "\x0c", "\x1f", "\xe9", "\u4e2d", "\U0001d4b3", ".", "..", "(c)", "--"]


def token_soup(rng) -> str:
    """a short random sequence of Markdown-significant tokens: no structure at all, so that delimiter runs, brackets, entities,
    block markers and blanks meet in orders no grammar-driven generator writes"""
    return "".join(rng.choice(SOUP) for _ in range(rng.randrange(1, 26)))


def line_pairs() -> list[str]:
    """every ordered pair of the line alphabet as a two-line document"""
    a = line_alphabet()
    return [x + "\n" + y + "\n" for x in a for y in a]


def line_triples() -> list[str]:
    """a container line, a line that is blank inside / outside the container, any line: what a leaf inside the container does at
    the container's end line (a scan that runs one line too far would take the third line in)"""
    a = line_alphabet()
    heads = [x for x in a if x[:1] in (">", "-", "1") or x.lstrip(" ")[:1] in (">", "-")]
    return [x + "\n" + m + "\n" + y + "\n" for x in heads for m in (">", "> ", "", "-", "  ") for y in a]


def delim_run_family() -> list[str]:
    """every sequence of three emphasis delimiter runs (lengths 1-3; can only open / can only close / can do both; * and _ mixed in
    the last position) plus a deterministic sample of four-run sequences: the opener search of the pairing pass keys its lower
    bounds by (can open, length mod 3), so every combination of the two has to occur below every other"""
    kinds = []
    for n in (1, 2, 3):
        kinds += [(" " + "*" * n + "a", "o"), ("a" + "*" * n + " ", "c"), ("a" + "*" * n + "a", "b")]
    out = []
    import itertools
    import random as _random
    for combo in itertools.product(kinds, repeat=3):
        out.append("x" + "".join(k for k, _ in combo) + "\n")
    r = _random.Random(7)
    allk = kinds + [(" " + "_" * n + "a", "o") for n in (1, 2)] + [("a" + "_" * n + " ", "c") for n in (1, 2)]
    for _ in range(900):
        out.append("x" + "".join(r.choice(allk)[0] for _ in range(r.choice([4, 4, 5]))) + "\n")
    return out


def flanking_soup(rng) -> str:
    """emphasis / strikethrough delimiter runs, each written so that it can only open (blank before, word after) or only close
    (word before, blank after): every order of openers and closers of different kinds, incl. pairs that would cross"""
    out = ["w"]
    for _ in range(rng.randrange(3, 10)):
        kind = rng.choice(["*", "**", "_", "__", "~~", "*", "**", "***"])
        w = rng.choice(["a", "b", "cd", "x"])
        out.append(f" {kind}{w}" if rng.random() < 0.5 else f"{w}{kind} ")
    return "".join(out).strip()


def inline_structured(rng, depth=0) -> str:
    """mostly valid inline constructs, nested"""
    r = rng.random()
    w = rng.choice(WORDS)
    if depth > 2 or r < 0.25:
        return w
    inner = " ".join(inline_structured(rng, depth + 1) for _ in range(rng.randrange(1, 3)))
    k = rng.randrange(12)
    if k == 0:
        return f"*{inner}*"
    if k == 1:
        return f"**{inner}**"
    if k == 2:
        return f"_{inner}_"
    if k == 3:
        return f"~~{inner}~~"
    if k == 4:
        return f"`{w}`"
    if k == 5:
        return f"[{inner}](/u{rng.randrange(3)} \"t {w}\")"
    if k == 6:
        return f"![{inner}](/i.png)"
    if k == 7:
        return f"[{inner}][r{rng.randrange(3)}]"
    if k == 8:
        return f"<span a=\"{w}\">{inner}</span>"
    if k == 9:
        return f"<http://e.x/{rng.randrange(9)}>"
    if k == 10:
        return f"\"{inner}\" '{w}'"
    return f"{inner} &amp; \\* {w}"


LEAVES = [
    lambda rng: inline_text(rng),
    lambda rng: inline_structured(rng),
    lambda rng: "#" * rng.randrange(1, 8) + rng.choice([" ", "", "\t"]) + inline_text(rng, 2) + rng.choice(["", " #", " ##  "]),
    lambda rng: "#" * rng.choice([1, 2, 6, 7, 7, 8, 10]) + rng.choice(["", "", " ", "  ", "\t", " #"]),   # marker-only ATX lines
    lambda rng: rng.choice(["***", "---", "___", "- - -", "**", "--", " * * *", "-\t-\t-"]),
    lambda rng: rng.choice(["```", "~~~", "````", "``` py", "~~~ a b", "```a`b"]),
    lambda rng: "    " + inline_text(rng, 2),
    lambda rng: "\t" + inline_text(rng, 2),
    lambda rng: rng.choice(["===", "---", "=", "-", "= ="]),
    lambda rng: rng.choice(["<div>", "</div>", "<!--", "-->", "<?php", "?>", "<pre>", "</pre>", "<script>", "<a>", "<![CDATA[", "]]>", "<!X>", "<x-y a=b>"]),
    lambda rng: "[r%d]: %s%s" % (rng.randrange(3), rng.choice(["/u", "<u v>", "http://x.y/z", "javascript:x", ""]), rng.choice(["", ' "t"', " 't'", ' "t', "\n 'multi\nline'"])),
    lambda rng: "|".join([""] * rng.randrange(0, 2) + [inline_text(rng, 1) for _ in range(rng.randrange(1, 4))] + [""] * rng.randrange(0, 2)),
    lambda rng: "|".join([""] * rng.randrange(0, 2) + [rng.choice(["---", ":--", "--:", ":-:", "-", ":", " - "]) for _ in range(rng.randrange(1, 4))] + [""] * rng.randrange(0, 2)),
    lambda rng: "",
    lambda rng: " " * rng.randrange(1, 6),
    lambda rng: rng.choice(["-", "*", "+", "1.", "1)", "10.", "0.", "123456789.", "1234567890."]),
]

PREFIXES = [">", "> ", ">\t", " > ", "   > ", ">>", "> > ", "- ", "* ", "+ ", "-\t", "1. ", "1) ", "2.  ", "-   ", "-    ",
            "  ", "   ", "    ", "\t", " ", "", "", "", ""]


def random_line(rng) -> str:
    pre = "".join(rng.choice(PREFIXES) for _ in range(rng.choice([0, 0, 1, 1, 2, 3])))
    return pre + rng.choice(LEAVES)(rng)


def grammar_doc(rng, nlines=None) -> str:
    n = nlines if nlines is not None else rng.randrange(1, 9)
    lines = []
    for _ in range(n):
        ln = random_line(rng)
        lines.append(ln)
        # continuation lines sharing the container prefix of the previous line
        if rng.random() < 0.35 and lines:
            m = re.match(r"^((?:[>\-*+ \t]|\d+[.)])*)", ln)
            pre = m.group(1) if m else ""
            pre2 = re.sub(r"[-*+]|\d+[.)]", lambda mm: " " * len(mm.group()), pre) if rng.random() < 0.6 else pre
            lines.append(pre2 + rng.choice(LEAVES)(rng))
    doc = "\n".join(lines)
    if rng.random() < 0.8:
        doc += "\n"
    return doc


# ---- tab-rich structured documents --------------------------------------------------------
Q_SPELL = [">", "> ", ">\t", " > ", ">  ", ">\t\t", " >\t", "  >", ">   ", "   > "]
M_SPELL = ["-", "*", "+", "1.", "2)", "10."]
AFTER_M = [" ", "\t", "  ", " \t", "\t\t", "   ", "\t  ", "    ", "\t ", "     "]
UWS = ["\xa0", "\x0c", "\x0b", "\u2003", "\u3000", "\x1c", "\x85", "\u2028"]
T_LEAVES = ["foo", "```", "~~~", "```\tpy", "# title", "#\ttitle", "***", "- - -", "    code", "\tcode", "\t\tcode", "  \tcode", "bar", "<div>", "[r]: /u",
            "===", "---", "a|b", "-|-", "  text", " \ttext", "1. x", "-\ty", "> q", ">\tq", "", "", "\\", "*em*\t_x_", "`c\td`"]


def tabbed_doc(rng) -> str:
    """Nested containers whose markers are followed / separated by tabs, per-line spelling variety of the quote
    prefix, lazy and interrupting lines, indentation spelled with tabs, Unicode blanks where ASCII blanks matter."""
    depth = rng.randrange(1, 4)
    kinds = [rng.choice("qql") for _ in range(depth)]        # q = quote, l = list item
    markers = [rng.choice(M_SPELL) for _ in kinds]
    lines = []
    n = rng.randrange(2, 7)
    widths = []
    for i in range(n):
        r = rng.random()
        if i and r < 0.12:
            lines.append(rng.choice(T_LEAVES))               # lazy / interrupting line at column 0
            continue
        if i and r < 0.2:
            lines.append(rng.choice(["", " ", "\t", ">", "> "]))
            continue
        pre = ""
        first = (i == 0) or rng.random() < 0.25                # (re)start the list items on this line
        for k, m in zip(kinds, markers):
            if k == "q":
                pre += rng.choice(Q_SPELL)
            elif first:
                pre += m + rng.choice(AFTER_M)
            else:
                pre += rng.choice([" " * (len(m) + 1), "\t", " " * (len(m) + 2), " " * len(m) + "\t", "  "])
        leaf = rng.choice(T_LEAVES)
        if rng.random() < 0.12:
            leaf = rng.choice(UWS) + leaf
        if rng.random() < 0.08:
            pre = pre.replace(" ", rng.choice(UWS), 1)
        lines.append(pre + rng.choice(["", "", " ", "\t", "  "]) + leaf)
    doc = "\n".join(lines)
    return doc + ("\n" if rng.random() < 0.85 else "")


def mutate(rng, s: str) -> str:
    if not s:
        return s
    k = rng.randrange(6)
    if k == 0:  # truncate
        return s[: rng.randrange(len(s) + 1)]
    if k == 1:  # splice two seeds
        t = rng.choice(seeds())
        return s[: rng.randrange(len(s) + 1)] + t[rng.randrange(len(t) + 1):]
    if k == 2:  # insert a fragment
        i = rng.randrange(len(s) + 1)
        return s[:i] + rng.choice(INLINE_FRAGS + PREFIXES) + s[i:]
    if k == 3:  # delete a span
        i = rng.randrange(len(s))
        return s[:i] + s[i + rng.randrange(1, 4):]
    if k == 4:  # prefix every line
        p = rng.choice(PREFIXES)
        return "".join(p + l for l in s.splitlines(True))
    i = rng.randrange(len(s))  # duplicate a line
    ls = s.splitlines(True)
    j = rng.randrange(len(ls))
    return "".join(ls[:j] + [ls[j]] + ls[j:])


def random_doc(rng) -> str:
    r = rng.random()
    if r < 0.30:
        return rng.choice(seeds())
    if r < 0.55:
        return mutate(rng, rng.choice(seeds()))
    if r < 0.80:
        return grammar_doc(rng)
    if r < 0.92:
        return tabbed_doc(rng)
    # malformed stream: arbitrary code points (no surrogates)
    n = rng.randrange(0, 30)
    cs = []
    for _ in range(n):
        c = rng.choice([rng.randrange(0, 128), rng.randrange(0, 0x300), rng.randrange(0, 0x110000), 10, 13, 0, 9, 32])
        if 0xD800 <= c <= 0xDFFF:
            c = 0xFFFD
        cs.append(chr(c))
    return "".join(cs)


def line_alphabet() -> list[str]:
    return [
        "", " ", "a", "    a", "\ta", "> a", ">", "> ", ">\t", ">>", "- a", "-", "- ", "1. a", "1.", "# a", "#", "---", "***",
        "===", "```", "~~~", "``` x", "<div>", "</div>", "<!--", "[a]: /u", "[a]: /u 't", "a|b", "-|-", "|a|", "|-|", ":-:|--",
        "> a|b", "> -|-", "  - a", "   > a", "\\", "*a", "a*", "`", "[a]", "[a](", "![a](b)", "<a", "&amp;", "  ",
        # characters that str predicates accept but the ASCII tests of the parser do not (isdigit / isspace / isalpha)
        "\u00b9. a", "\u2461) a", "\u0663. a", "1\u00b3. a", "```\u00a0", "\u00a0\u3000",
        # marker-only ATX lines at and past the level limit
        "######", "#######", "########## ",
        # leaf openers indented inside a container (content the container strips a prefix from), and marker-only container lines
        # that move a line start to the very end of the source when they come last without a line feed
        ">  ```", ">  ~~~ x", "> - ```", "- >  ```", "-  ```", "  >", ">  ", ">  <div>", ">     a", ">  [a]:", "  > ",
    ]
