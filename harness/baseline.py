"""Run the repository's pinned suite (guard off) and compare with BASELINE.json:
every test in stable_pass must pass.  Exit 0 iff so."""
import json, os, subprocess, sys, tempfile
import xml.etree.ElementTree as ET

base = json.load(open("/root/.vp/BASELINE.json"))
repo = sys.argv[1] if len(sys.argv) > 1 else "/repo"
env = dict(os.environ)
env.pop("MARKDOWN_IT_PY_VERIF", None)
with tempfile.TemporaryDirectory() as d:
    xml = os.path.join(d, "r.xml")
    cmd = base["cmd"].replace("<file>", xml).replace("cd /repo", f"cd {repo}")
    subprocess.run(cmd, shell=True, env=env, stdout=subprocess.DEVNULL, stderr=subprocess.DEVNULL)
    passed = set()
    for tc in ET.parse(xml).getroot().iter("testcase"):
        if not any(c.tag in ("failure", "error", "skipped") for c in tc):
            passed.add(f"{tc.get('classname')}::{tc.get('name')}")
missing = [t for t in base["stable_pass"] if t not in passed]
print(f"stable_pass={len(base['stable_pass'])} passed_now={len(passed)} missing={len(missing)}")
for t in missing[:20]:
    print("  NOT PASSING:", t)
sys.exit(1 if missing else 0)
