"""A strict checker for the HTML the default renderer may produce when raw HTML is off (C04):
properly nested tags from the renderer's fixed vocabulary, attributes from a fixed list,
and & < > " escaped everywhere input characters can appear."""
from __future__ import annotations

import re

TAGS = {"p", "h1", "h2", "h3", "h4", "h5", "h6", "ul", "ol", "li", "blockquote", "pre", "code", "em", "strong", "s",
        "a", "img", "br", "hr", "table", "thead", "tbody", "tr", "th", "td"}
VOID = {"br", "hr", "img"}
ATTRS = {"href", "title", "src", "alt", "class", "start", "style"}
ENT = re.compile(r"&(?!amp;|lt;|gt;|quot;)")
TAG = re.compile(r"<(/?)([A-Za-z][A-Za-z0-9]*)((?: [A-Za-z][A-Za-z0-9-]*=\"[^\"<>]*\")*)( /)?>")
ATTR = re.compile(r" ([A-Za-z][A-Za-z0-9-]*)=\"([^\"<>]*)\"")


def check(html: str):
    """None if well formed, else a description"""
    pos = 0
    stack = []
    n = len(html)
    while pos < n:
        lt = html.find("<", pos)
        text = html[pos: lt if lt >= 0 else n]
        if ">" in text or '"' in text:
            return f"raw > or \" in text at {pos}: {text[:60]!r}"
        if ENT.search(text):
            return f"bare & in text at {pos}: {text[:60]!r}"
        if lt < 0:
            break
        m = TAG.match(html, lt)
        if not m:
            return f"malformed tag at {lt}: {html[lt:lt + 80]!r}"
        closing, name, attrs, selfclose = m.group(1), m.group(2), m.group(3), m.group(4)
        if name not in TAGS:
            return f"tag <{name}> is not in the renderer's vocabulary"
        for am in ATTR.finditer(attrs):
            if am.group(1) not in ATTRS:
                return f"attribute {am.group(1)!r} is not in the renderer's vocabulary"
            if ENT.search(am.group(2)):
                return f"bare & in attribute value {am.group(2)[:60]!r}"
        if closing:
            if attrs or selfclose:
                return f"closing tag with attributes at {lt}"
            if not stack or stack[-1] != name:
                return f"</{name}> closes {stack[-1] if stack else 'nothing'} at {lt}"
            stack.pop()
        elif name in VOID:
            pass
        else:
            if selfclose:
                return f"non-void <{name} /> at {lt}"
            stack.append(name)
        pos = m.end()
    if stack:
        return f"unclosed tags at end: {stack}"
    return None
