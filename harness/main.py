"""Entry point of every check:  main.py <Cxx|all> [--tier quick|thorough]  |  main.py replay <file>"""
from __future__ import annotations

import argparse
import importlib
import json
import os
import shutil
import sys
import time
import traceback

sys.path.insert(0, "/verif/harness")
os.environ.setdefault("PYTHONHASHSEED", "0")

import common  # noqa: E402
import gen as gen_mod  # noqa: E402

ALL = [f"C{n:02d}" for n in range(1, 21)]


def run_one(pid: str, tier: str, seed: int) -> int:
    rep = common.Reporter(pid, tier, seed)
    mod_name = f"props.{pid.lower()}"
    try:
        mod = importlib.import_module(mod_name)
    except ModuleNotFoundError:
        print(f"{pid}: no check implemented", flush=True)
        return 2
    # 1. gen
    translator_error = None
    try:
        gen = gen_mod.gen_all()
    except gen_mod.GenError as e:
        # fail closed - but first look for a concrete failing input: keep the last translation of the part that cannot be
        # translated any more (the model of the code as it was) and run the whole check with it; whatever it finds, the run ends
        # in a violation, with the translator's message as the obligation that no longer checks
        translator_error = str(e)
        try:
            gen = gen_mod.gen_all(tolerant=True)
        except Exception as e2:  # noqa: BLE001
            rep.violation("translator-failed", {"obligation": "Gen/*.v could not be regenerated from /repo", "error": str(e2)},
                          no_input=True)
            return rep.finish("proof", {"evaluations": 0, "distinct_nontrivial": 0, "explanation": "translator failed"}, [])
    # 2. prove
    forb = common.scan_forbidden()
    proofs = common.build_props(pid)
    if forb:
        proofs["ok"] = False
        proofs["failed"] = "forbidden construct: " + forb[0]
    if translator_error is not None:
        proofs["ok"] = False
        proofs["failed"] = "translator: Gen/*.v could not be regenerated from /repo (" + translator_error + "); the model was built from the last successful translation"
    if not common.BIN.exists():
        print("model driver missing after build:\n" + proofs["log"][-3000:], flush=True)
        rep.violation("build-failed", {"log": proofs["log"][-3000:]}, no_input=True)
        return rep.finish("proof", {"evaluations": 0, "distinct_nontrivial": 0}, [])
    if tier == "thorough" and proofs.get("ok"):
        proofs["coqchk"] = common.coqchk(pid)
        if not proofs["coqchk"]["ok"]:
            proofs["ok"] = False
            proofs["failed"] = "coqchk: " + proofs["coqchk"]["summary"][-300:]
    ctx = {"rep": rep, "tier": tier, "seed": seed, "gen": gen, "proofs": proofs}
    try:
        rc = mod.run(ctx)
    except Exception as e:  # noqa: BLE001
        traceback.print_exc()
        frames = traceback.extract_tb(e.__traceback__)
        in_impl = [f for f in frames if "/repo/" in f.filename or "/mdurl/" in f.filename]
        if in_impl:
            # the implementation raised where the harness calls it unguarded: the check could not be completed,
            # which is reported as a violation without a minimised input (never silently as a harness failure)
            last = in_impl[-1]
            rep.violation("implementation-raised", {
                "obligation": "the check's run over the implementation completes",
                "exception": f"{type(e).__name__}: {e}"[:300], "where": f"{last.filename}:{last.lineno} in {last.name}",
                "traceback": traceback.format_exc()[-2500:]}, no_input=True)
            rep.finish("proof", {"evaluations": 1, "distinct_nontrivial": 2, "explanation": "aborted: the implementation raised inside the harness",
                                 **common.proof_cov(pid, proofs, [])}, [])
            print(f"{pid} [{tier}] VIOLATIONS: implementation raised inside the harness", flush=True)
            return 1
        print(f"{pid}: harness error", flush=True)
        return 3
    finally:
        shutil.rmtree(common.WORK, ignore_errors=True)
    if translator_error is not None and rc == 0:
        # never quiet: the tie between model and code is broken even if nothing else noticed
        rep.violation("translator-failed", {"obligation": "Gen/*.v could not be regenerated from /repo", "error": translator_error},
                      no_input=True)
        rc = 1
    status = "ok" if rc == 0 else "VIOLATIONS"
    print(f"{pid} [{tier}] {status}: proofs {len(proofs['discharged'])}/{len(proofs['obligations'])}, "
          f"{time.time() - rep.t0:.1f}s", flush=True)
    return rc


def main():
    ap = argparse.ArgumentParser()
    ap.add_argument("what")
    ap.add_argument("file", nargs="?")
    ap.add_argument("--tier", default=os.environ.get("VERIF_TIER", "quick"))
    a = ap.parse_args()
    seed = int(os.environ.get("VERIF_SEED", "0"))
    if a.what == "replay":
        body = json.load(open(a.file))
        mod = importlib.import_module(f"props.{body['property'].lower()}")
        sys.exit(mod.replay(body))
    pids = ALL if a.what == "all" else [a.what.upper()]
    rc = 0
    for pid in pids:
        r = run_one(pid, a.tier, seed)
        rc = max(rc, 1 if r == 1 else (r if r > 1 else 0))
    sys.exit(rc)


if __name__ == "__main__":
    main()
