"""Common driver for the parser properties whose executable form is a predicate on one parse
(C02, C03, C08): pipeline correspondence + predicate on the implementation."""
from __future__ import annotations

import re

import json

from common import Reporter, conclude, guarded, proof_cov, rng_for, supported
import blockrun
import configs
import docs
import pipecheck


def indep_normalize(src: str) -> str:
    """the normalised input the properties speak about, computed without the library: CRLF / CR -> LF, NUL -> U+FFFD"""
    return re.sub(r"\r\n?", "\n", src).replace("\x00", "\ufffd")


def run_generic(ctx, pid, kind, predicate, extra_docs, trusted, rule_text, cfg_filter=None, n_quick=(500, 2500), n_thorough=(10000, 80000),
                fixed_extra=None):
    rep: Reporter = ctx["rep"]
    tier, seed, proofs = ctx["tier"], ctx["seed"], ctx["proofs"]
    rng = rng_for(pid, seed)
    q = tier == "quick"
    n_corr, n_dir = n_quick if q else n_thorough

    def mkcfg(r, k):
        cfg = configs.STANDARD[k % 5] if k % 3 == 0 else configs.random_config(r)
        cfg = dict(cfg, ruler2_off=[])
        return cfg_filter(cfg) if cfg_filter else cfg

    def mkdoc(r, k):
        d = extra_docs(r) if extra_docs and k % 3 == 0 else (docs.token_soup(r) if k % 5 == 1 else docs.random_doc(r))
        if k % 7 == 3:
            # other line-end encodings: the property speaks about the normalised input
            d = "".join(r.choice(["\r", "\r\n", "\n"]) if c == "\n" else c for c in d)
        return d

    cases = [(mkcfg(rng, k), "parse", mkdoc(rng, k), None) for k in range(n_corr)]
    # the hand-made corner documents first, each under the two configurations that switch every rule on
    fixed = [(dict(configs.STANDARD[ci], ruler2_off=[]), d) for d in docs.corner_docs() for ci in (2, 4)]
    fixed += [(dict(docs.CODE_OFF), d) for d in docs.code_off_docs()]
    fixed += [(dict(configs.STANDARD[2], ruler2_off=[]), d) for d in (fixed_extra or [])]
    if cfg_filter:
        fixed = [(cfg_filter(c), d) for c, d in fixed]
    cases = [(c, "parse", d, None) for c, d in fixed] + cases
    n_run, disagreements, kn, kbad, lines = pipecheck.correspond(cases, pid.lower())

    count = {"n": 0}

    def probe(r, n):
        for k in range(-len(fixed), n):
            cfg, src = fixed[k] if k < 0 else (mkcfg(r, k), None)
            md = configs.make_md(cfg)
            if not supported(md):
                continue
            if src is None:
                src = mkdoc(r, k)
            env = {}
            try:
                ts = guarded(md.parse, src, env)
            except Exception:  # noqa: BLE001
                continue
            count["n"] += 1
            bad = predicate(ts, indep_normalize(src), env)
            if bad:
                return {"config": cfg, "src": src, "problem": bad}
        return None
    direct = probe(rng, n_dir)
    conclude(rep, proofs, direct, kind, disagreements, kbad,
             lambda: probe(rng_for(pid, seed, "search"), n_dir * 3),
             "whole pipeline (token dicts incl. maps, levels, markup; env): model and implementation differ")
    cov = proof_cov(pid, proofs, trusted)
    cov.update({
        "evaluations": n_run + count["n"], "distinct_nontrivial": len(set(lines)) + count["n"],
        "rule": rule_text, "samples": [{"src": cases[0][2]}, {"src": cases[1][2]}],
        "traces_validated_against_impl": n_run, "implementation_documents": count["n"],
        "in_kernel_cases": kn, "in_kernel_mismatches": len(kbad), "disagreements": len(disagreements),
    })
    return rep.finish("proof", cov, ["supported configurations; rules2 of the inline parser all enabled"])


def replay_generic(body, predicate):
    if "config" in body and "src" in body:
        md = configs.make_md(body["config"])
        env = {}
        ts = md.parse(body["src"], env)
        bad = predicate(ts, indep_normalize(body["src"]), env)
        print("on implementation:", "VIOLATED " + str(bad) if bad else "holds")
        return 1 if bad else 0
    print(json.dumps(body, default=str)[:1500])
    return 0
