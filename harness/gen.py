"""Translators: regenerate the data-like parts of the model from /repo's working
tree.  Fail closed: any construct that is not recognised raises GenError, which the
check reports as a broken obligation (the model can no longer be tied to the source).
Output: coq/Gen/*.v (rewritten only when the content changed) and work-free JSON
returned to the caller."""
from __future__ import annotations

import ast
import importlib
import json
import sys
from pathlib import Path

from common import COQ, REPO

GEN = COQ / "Gen"


class GenError(Exception):
    pass


def coq_str(s: str) -> str:
    return "[" + "; ".join(str(ord(c)) for c in s) + "]"


def coq_strs(l) -> str:
    return "[" + "; ".join(coq_str(s) for s in l) + "]"


def write_if_changed(path: Path, text: str) -> bool:
    if path.exists() and path.read_text() == text:
        return False
    path.parent.mkdir(exist_ok=True)
    path.write_text(text)
    return True


HEADER = "(* GENERATED from /repo by harness/gen.py on every run -- do not edit. *)\nFrom MD Require Import Base.Py.\n\n"


# --------------------------------------------------------------------------
# rule registries


def _rules_from(path: Path, var: str, with_alt: bool):
    tree = ast.parse(path.read_text())
    found = None
    for node in tree.body:
        tgt = None
        if isinstance(node, ast.AnnAssign) and isinstance(node.target, ast.Name):
            tgt, val = node.target.id, node.value
        elif isinstance(node, ast.Assign) and len(node.targets) == 1 and isinstance(node.targets[0], ast.Name):
            tgt, val = node.targets[0].id, node.value
        if tgt == var:
            if found is not None:
                raise GenError(f"{path}: {var} assigned twice")
            found = val
    if found is None or not isinstance(found, ast.List):
        raise GenError(f"{path}: {var} is not a list literal")
    out = []
    for el in found.elts:
        if not isinstance(el, ast.Tuple) or len(el.elts) not in ((3,) if with_alt else (2,)):
            raise GenError(f"{path}: {var} element is not a {'3' if with_alt else '2'}-tuple")
        nm = el.elts[0]
        if not (isinstance(nm, ast.Constant) and isinstance(nm.value, str)):
            raise GenError(f"{path}: rule name is not a string literal")
        fn = ast.unparse(el.elts[1])
        alt = []
        if with_alt:
            a = el.elts[2]
            if not isinstance(a, ast.List) or not all(
                isinstance(x, ast.Constant) and isinstance(x.value, str) for x in a.elts
            ):
                raise GenError(f"{path}: alt is not a list of string literals")
            alt = [x.value for x in a.elts]
        out.append((nm.value, fn, alt))
    # any later mutation of the list in the module would not be seen: refuse it
    src = path.read_text()
    for bad in (f"{var}.append", f"{var}.insert", f"{var}.extend", f"{var} +=", f"{var}[", f"del {var}"):
        if bad in src:
            raise GenError(f"{path}: {var} is mutated after its definition ({bad})")
    return out


def gen_rules() -> dict:
    pk = REPO / "markdown_it"
    reg = {
        "core": _rules_from(pk / "parser_core.py", "_rules", False),
        "block": _rules_from(pk / "parser_block.py", "_rules", True),
        "inline": _rules_from(pk / "parser_inline.py", "_rules", False),
        "inline2": _rules_from(pk / "parser_inline.py", "_rules2", False),
    }
    lines = [HEADER, "(* (name, alt) in registration order; the function id of a rule is its index *)\n"]
    for chain, rs in reg.items():
        lines.append(f"Definition {chain}_registry : list (str * list str) := [\n")
        lines.append(";\n".join(f"  ({coq_str(n)}, {coq_strs(alt)}) (* {n} = {fn} *)" for n, fn, alt in rs))
        lines.append("\n].\n\n")
    write_if_changed(GEN / "Rules.v", "".join(lines))
    return {c: [(n, alt) for n, _, alt in rs] for c, rs in reg.items()}


# --------------------------------------------------------------------------
# presets (evaluated: presets are code, the result is data)


def _fresh_import(name: str):
    for m in list(sys.modules):
        if m == "markdown_it" or m.startswith("markdown_it."):
            del sys.modules[m]
    return importlib.import_module(name)


def opt_sx(v) -> str:
    """option value -> Gallina term of type optval"""
    if v is None:
        return "OVNone"
    if isinstance(v, bool):
        return f"OVBool {'true' if v else 'false'}"
    if isinstance(v, int):
        return f"OVInt ({v})"
    if isinstance(v, str):
        return f"OVStr {coq_str(v)}"
    if isinstance(v, (list, tuple)) and all(isinstance(x, str) for x in v):
        return f"OVStrs {coq_strs(v)}"
    raise GenError(f"preset option value of unsupported type: {v!r}")


def gen_presets() -> dict:
    presets = importlib.import_module("markdown_it.presets")
    main = importlib.import_module("markdown_it.main")
    names = sorted(main._PRESETS)
    out = {}
    lines = [
        HEADER,
        "From MD Require Import Base.Opt.\n\n",
    ]
    for nm in names:
        cfg = main._PRESETS[nm]
        if set(cfg) - {"options", "components"}:
            raise GenError(f"preset {nm}: unexpected keys {set(cfg)}")
        opts = cfg.get("options", {})
        comps = cfg.get("components", {})
        ident = "preset_" + nm.replace("-", "_")
        lines.append(f"Definition {ident} : preset := {{|\n  p_options := [\n")
        lines.append(";\n".join(f"    ({coq_str(k)}, {opt_sx(v)}) (* {k} *)" for k, v in opts.items()))
        lines.append("];\n  p_components := [\n")
        cl = []
        for cname, comp in comps.items():
            if set(comp) - {"rules", "rules2"}:
                raise GenError(f"preset {nm}.{cname}: unexpected keys")
            r = comp.get("rules")
            r2 = comp.get("rules2")
            cl.append(
                f"    ({coq_str(cname)}, ({'Some ' + coq_strs(r) if r is not None else 'None'}, "
                f"{'Some ' + coq_strs(r2) if r2 is not None else 'None'})) (* {cname} *)"
            )
        lines.append(";\n".join(cl))
        lines.append("] |}.\n\n")
        out[nm] = {"options": {k: v for k, v in opts.items()}, "components": comps}
    lines.append("Definition presets : list (str * preset) := [\n")
    lines.append(";\n".join(f"  ({coq_str(nm)}, preset_{nm.replace('-', '_')})" for nm in names))
    lines.append("].\n")
    write_if_changed(GEN / "Presets.v", "".join(lines))
    return out


# --------------------------------------------------------------------------
# shape of the shared accesses in Ruler.getRules / Ruler.__compile__ (C13)


def gen_ruler_shape() -> dict:
    """Sequence of bytecode-level accesses to the shared attribute self.__cache__ (0 = load,
    1 = store, 2 = call of self.__compile__) in bytecode order.  The concurrency model
    (Model/Conc.v) implements exactly the shape it states in [expected_shape]; Props/C13.v
    proves generated = expected by reflexivity, so an edit that changes how the cache is
    published breaks that obligation."""
    import dis

    ruler = importlib.import_module("markdown_it.ruler")

    def shape(fn):
        out = []
        for ins in dis.get_instructions(fn):
            if ins.opname in ("LOAD_ATTR", "LOAD_METHOD") and ins.argval == "__cache__":
                out.append(0)
            elif ins.opname in ("STORE_ATTR", "DELETE_ATTR") and ins.argval == "__cache__":
                out.append(1)
            elif ins.opname in ("LOAD_ATTR", "LOAD_METHOD") and ins.argval == "__compile__":
                out.append(2)
            elif ins.opname in ("STORE_GLOBAL", "DELETE_GLOBAL"):
                raise GenError(f"ruler.{fn.__name__}: writes a module global ({ins.argval})")
        return out

    try:
        comp = shape(ruler.Ruler.__compile__)
        get = shape(ruler.Ruler.getRules)
    except AttributeError as e:
        raise GenError(f"ruler.py: {e}")
    lines = [HEADER, "(* accesses to self.__cache__: 0 load, 1 store, 2 call self.__compile__ *)\n",
             f"Definition compile_shape : list Z := [{'; '.join(map(str, comp))}].\n",
             f"Definition getRules_shape : list Z := [{'; '.join(map(str, get))}].\n"]
    write_if_changed(GEN / "RulerShape.v", "".join(lines))
    return {"compile": comp, "getRules": get}


def gen_all() -> dict:
    return {"rules": gen_rules(), "presets": gen_presets(), "ruler_shape": gen_ruler_shape()}


if __name__ == "__main__":
    r = gen_all()
    print(json.dumps({k: (list(v) if isinstance(v, dict) else v) for k, v in r.items()}, default=str)[:400])
