"""Translators: regenerate the data-like parts of the model from /repo's working
tree.  Fail closed: any construct that is not recognised raises GenError, which the
check reports as a broken obligation (the model can no longer be tied to the source).
Output: coq/Gen/*.v (rewritten only when the content changed) and work-free JSON
returned to the caller."""
from __future__ import annotations

import ast
import importlib
import json
import sys
from pathlib import Path

from common import COQ, REPO

GEN = COQ / "Gen"


class GenError(Exception):
    pass


def coq_str(s: str) -> str:
    return "[" + "; ".join(str(ord(c)) for c in s) + "]"


def coq_strs(l) -> str:
    return "[" + "; ".join(coq_str(s) for s in l) + "]"


def write_if_changed(path: Path, text: str) -> bool:
    if path.exists() and path.read_text() == text:
        return False
    path.parent.mkdir(exist_ok=True)
    path.write_text(text)
    return True


HEADER = "(* GENERATED from /repo by harness/gen.py on every run -- do not edit. *)\nFrom MD Require Import Base.Py.\n\n"


# --------------------------------------------------------------------------
# rule registries


def _rules_from(path: Path, var: str, with_alt: bool):
    tree = ast.parse(path.read_text())
    found = None
    for node in tree.body:
        tgt = None
        if isinstance(node, ast.AnnAssign) and isinstance(node.target, ast.Name):
            tgt, val = node.target.id, node.value
        elif isinstance(node, ast.Assign) and len(node.targets) == 1 and isinstance(node.targets[0], ast.Name):
            tgt, val = node.targets[0].id, node.value
        if tgt == var:
            if found is not None:
                raise GenError(f"{path}: {var} assigned twice")
            found = val
    if found is None or not isinstance(found, ast.List):
        raise GenError(f"{path}: {var} is not a list literal")
    out = []
    for el in found.elts:
        if not isinstance(el, ast.Tuple) or len(el.elts) not in ((3,) if with_alt else (2,)):
            raise GenError(f"{path}: {var} element is not a {'3' if with_alt else '2'}-tuple")
        nm = el.elts[0]
        if not (isinstance(nm, ast.Constant) and isinstance(nm.value, str)):
            raise GenError(f"{path}: rule name is not a string literal")
        fn = ast.unparse(el.elts[1])
        alt = []
        if with_alt:
            a = el.elts[2]
            if not isinstance(a, ast.List) or not all(
                isinstance(x, ast.Constant) and isinstance(x.value, str) for x in a.elts
            ):
                raise GenError(f"{path}: alt is not a list of string literals")
            alt = [x.value for x in a.elts]
        out.append((nm.value, fn, alt))
    # any later mutation of the list in the module would not be seen: refuse it
    src = path.read_text()
    for bad in (f"{var}.append", f"{var}.insert", f"{var}.extend", f"{var} +=", f"{var}[", f"del {var}"):
        if bad in src:
            raise GenError(f"{path}: {var} is mutated after its definition ({bad})")
    return out


def gen_rules() -> dict:
    pk = REPO / "markdown_it"
    reg = {
        "core": _rules_from(pk / "parser_core.py", "_rules", False),
        "block": _rules_from(pk / "parser_block.py", "_rules", True),
        "inline": _rules_from(pk / "parser_inline.py", "_rules", False),
        "inline2": _rules_from(pk / "parser_inline.py", "_rules2", False),
    }
    lines = [HEADER, "(* (name, alt) in registration order; the function id of a rule is its index *)\n"]
    for chain, rs in reg.items():
        lines.append(f"Definition {chain}_registry : list (str * list str) := [\n")
        lines.append(";\n".join(f"  ({coq_str(n)}, {coq_strs(alt)}) (* {n} = {fn} *)" for n, fn, alt in rs))
        lines.append("\n].\n\n")
    write_if_changed(GEN / "Rules.v", "".join(lines))
    return {c: [(n, alt) for n, _, alt in rs] for c, rs in reg.items()}


# --------------------------------------------------------------------------
# presets (evaluated: presets are code, the result is data)


def _fresh_import(name: str):
    for m in list(sys.modules):
        if m == "markdown_it" or m.startswith("markdown_it."):
            del sys.modules[m]
    return importlib.import_module(name)


def opt_sx(v) -> str:
    """option value -> Gallina term of type optval"""
    if v is None:
        return "OVNone"
    if isinstance(v, bool):
        return f"OVBool {'true' if v else 'false'}"
    if isinstance(v, int):
        return f"OVInt ({v})"
    if isinstance(v, str):
        return f"OVStr {coq_str(v)}"
    if isinstance(v, (list, tuple)) and all(isinstance(x, str) for x in v):
        return f"OVStrs {coq_strs(v)}"
    raise GenError(f"preset option value of unsupported type: {v!r}")


def gen_presets() -> dict:
    presets = importlib.import_module("markdown_it.presets")
    main = importlib.import_module("markdown_it.main")
    names = sorted(main._PRESETS)
    out = {}
    lines = [
        HEADER,
        "From MD Require Import Base.Opt.\n\n",
    ]
    for nm in names:
        cfg = main._PRESETS[nm]
        if set(cfg) - {"options", "components"}:
            raise GenError(f"preset {nm}: unexpected keys {set(cfg)}")
        opts = cfg.get("options", {})
        comps = cfg.get("components", {})
        ident = "preset_" + nm.replace("-", "_")
        lines.append(f"Definition {ident} : preset := {{|\n  p_options := [\n")
        lines.append(";\n".join(f"    ({coq_str(k)}, {opt_sx(v)}) (* {k} *)" for k, v in opts.items()))
        lines.append("];\n  p_components := [\n")
        cl = []
        for cname, comp in comps.items():
            if set(comp) - {"rules", "rules2"}:
                raise GenError(f"preset {nm}.{cname}: unexpected keys")
            r = comp.get("rules")
            r2 = comp.get("rules2")
            cl.append(
                f"    ({coq_str(cname)}, ({'Some ' + coq_strs(r) if r is not None else 'None'}, "
                f"{'Some ' + coq_strs(r2) if r2 is not None else 'None'})) (* {cname} *)"
            )
        lines.append(";\n".join(cl))
        lines.append("] |}.\n\n")
        out[nm] = {"options": {k: v for k, v in opts.items()}, "components": comps}
    lines.append("Definition presets : list (str * preset) := [\n")
    lines.append(";\n".join(f"  ({coq_str(nm)}, preset_{nm.replace('-', '_')})" for nm in names))
    lines.append("].\n")
    write_if_changed(GEN / "Presets.v", "".join(lines))
    return out


# --------------------------------------------------------------------------
# shape of the shared accesses in Ruler.getRules / Ruler.__compile__ (C13)


def gen_ruler_shape() -> dict:
    """Sequence of bytecode-level accesses to the shared attribute self.__cache__ (0 = load,
    1 = store, 2 = call of self.__compile__) in bytecode order.  The concurrency model
    (Model/Conc.v) implements exactly the shape it states in [expected_shape]; Props/C13.v
    proves generated = expected by reflexivity, so an edit that changes how the cache is
    published breaks that obligation."""
    import dis

    ruler = importlib.import_module("markdown_it.ruler")

    def shape(fn):
        out = []
        for ins in dis.get_instructions(fn):
            if ins.opname in ("LOAD_ATTR", "LOAD_METHOD") and ins.argval == "__cache__":
                out.append(0)
            elif ins.opname in ("STORE_ATTR", "DELETE_ATTR") and ins.argval == "__cache__":
                out.append(1)
            elif ins.opname in ("LOAD_ATTR", "LOAD_METHOD") and ins.argval == "__compile__":
                out.append(2)
            elif ins.opname in ("STORE_GLOBAL", "DELETE_GLOBAL"):
                raise GenError(f"ruler.{fn.__name__}: writes a module global ({ins.argval})")
        return out

    try:
        comp = shape(ruler.Ruler.__compile__)
        get = shape(ruler.Ruler.getRules)
    except AttributeError as e:
        raise GenError(f"ruler.py: {e}")
    lines = [HEADER, "(* accesses to self.__cache__: 0 load, 1 store, 2 call self.__compile__ *)\n",
             f"Definition compile_shape : list Z := [{'; '.join(map(str, comp))}].\n",
             f"Definition getRules_shape : list Z := [{'; '.join(map(str, get))}].\n"]
    write_if_changed(GEN / "RulerShape.v", "".join(lines))
    return {"compile": comp, "getRules": get}


# --------------------------------------------------------------------------
# regular expressions: every compiled pattern of the library, parsed by CPython's own
# parser; every single-character construct (literal, class, dot, category; with
# IGNORECASE / DOTALL in force) is replaced by the exact set of code points CPython
# matches for it, obtained by running the compiled item over all code points.

_ALL_CHARS = None


def _all_chars():
    global _ALL_CHARS
    if _ALL_CHARS is None:
        _ALL_CHARS = "".join(map(chr, range(0x110000)))
    return _ALL_CHARS


_ITEM_CACHE: dict = {}
_DISK = Path("/verif/.gen_cache.json")


def _load_disk_cache():
    # pure function of (CPython version, item, flags): safe to keep between runs
    if _ITEM_CACHE:
        return
    try:
        d = json.loads(_DISK.read_text())
        if d.get("python") == sys.version:
            for k, v in d["items"].items():
                _ITEM_CACHE[k] = v
    except Exception:  # noqa: BLE001
        pass


def _save_disk_cache():
    try:
        _DISK.write_text(json.dumps({"python": sys.version, "items": _ITEM_CACHE}))
    except Exception:  # noqa: BLE001
        pass


def _char_set(state, item, flags):
    """sorted list of (lo, hi) ranges of the code points matched by a one-character item"""
    import re
    _load_disk_cache()
    key = repr((repr(item), int(flags & (re.I | re.S | re.A))))
    if key in _ITEM_CACHE:
        return _ITEM_CACHE[key]
    st = re._parser.State()
    st.flags = flags
    st.str = ""
    sp = re._parser.SubPattern(st, [item])
    try:
        comp = re._compiler.compile(sp, flags)
    except Exception as e:  # noqa: BLE001
        raise GenError(f"regex item {item!r}: cannot compile in isolation: {e}")
    cps = [ord(c) for c in comp.findall(_all_chars())]
    ranges = []
    for c in cps:
        if ranges and ranges[-1][1] == c - 1:
            ranges[-1][1] = c
        else:
            ranges.append([c, c])
    _ITEM_CACHE[key] = ranges
    return ranges


def _re_term(parsed, flags, name):
    import re
    from re import _constants as C
    P = re._parser

    def cls(ranges):
        items = "; ".join(f"CChar {a}" if a == b else f"CRange {a} {b}" for a, b in ranges)
        return f"(RIn false [{items}])"

    def seq(items):
        if not items:
            return "REps"
        out = items[-1]
        for x in reversed(items[:-1]):
            out = f"(RCat {x} {out})"
        return out

    def alt(items):
        if not items:
            return "RFail"
        out = items[-1]
        for x in reversed(items[:-1]):
            out = f"(RAlt {x} {out})"
        return out

    def go(sp):
        out = []
        for op, av in sp:
            if op in (C.LITERAL, C.NOT_LITERAL, C.IN, C.ANY):
                out.append(cls(_char_set(parsed.state, (op, av), flags)))
            elif op is C.BRANCH:
                out.append(alt([go(x) for x in av[1]]))
            elif op is C.SUBPATTERN:
                g, add, dele, p = av
                if add or dele:
                    raise GenError(f"regex {name}: inline flag groups are not supported")
                body = go(p)
                out.append(body if g is None else f"(RGroup {g}%nat {body})")
            elif op in (C.MAX_REPEAT, C.MIN_REPEAT):
                mn, mx, p = av
                mxs = "None" if mx == C.MAXREPEAT else f"(Some {mx}%nat)"
                if mn > 5000 or (mx != C.MAXREPEAT and mx > 5000):
                    raise GenError(f"regex {name}: repeat bound too large")
                out.append(f"(RRep {mn}%nat {mxs} {'true' if op is C.MAX_REPEAT else 'false'} {go(p)})")
            elif op is C.AT:
                ml = "true" if flags & re.M else "false"
                if av is C.AT_BEGINNING:
                    out.append(f"(RBol {ml})")
                elif av is C.AT_END:
                    out.append(f"(REol {ml})")
                elif av is C.AT_BEGINNING_STRING:
                    out.append("(RBol false)")
                else:
                    raise GenError(f"regex {name}: anchor {av} not supported")
            elif op in (C.ASSERT, C.ASSERT_NOT):
                d, p = av
                if d != 1:
                    raise GenError(f"regex {name}: look-behind not supported")
                out.append(f"(RLook {'true' if op is C.ASSERT_NOT else 'false'} {go(p)})")
            else:
                raise GenError(f"regex {name}: construct {op} not supported")
        return seq(out)

    return go(parsed)


def _safe(txt: str) -> str:
    """pattern text made harmless for a Coq comment"""
    return "".join(c if (c.isalnum() and c.isascii()) or c in " _-+.,:;=<>[]{}|^$?!/#%&@~" else "~" for c in txt[:100])


def gen_regexes() -> dict:
    import re
    import pkgutil
    import markdown_it

    found = {}
    for m in pkgutil.walk_packages(markdown_it.__path__, "markdown_it."):
        if m.name.startswith("markdown_it.cli"):
            continue
        try:
            mod = importlib.import_module(m.name)
        except ModuleNotFoundError:
            continue
        short = m.name.split(".")[-1]
        for attr, val in sorted(vars(mod).items()):
            if isinstance(val, re.Pattern):
                if getattr(mod, "__name__", "") != m.name:
                    continue
                found.setdefault((val.pattern, val.flags), []).append((short, attr, val))
            elif isinstance(val, (list, tuple)) and val and all(
                    isinstance(x, tuple) and any(isinstance(y, re.Pattern) for y in x) for x in val):
                found.setdefault(("SEQ", short, attr), []).append((short, attr, val))
    lines = [HEADER, "From MD Require Import Base.Regex.\n\n"]
    emitted = {}
    names = {}

    def emit(ident, pat):
        parsed = re._parser.parse(pat.pattern, pat.flags)
        term = _re_term(parsed, pat.flags, ident)
        return term

    for key, users in sorted(found.items(), key=lambda kv: str(kv[0])):
        if key[0] == "SEQ":
            short, attr, val = users[0]
            ident = f"re_{short}_{attr}"
            rows = []
            for row in val:
                if not (len(row) == 3 and isinstance(row[0], re.Pattern) and isinstance(row[1], re.Pattern) and isinstance(row[2], bool)):
                    raise GenError(f"{short}.{attr}: unexpected row shape")
                rows.append(f"  ({emit(ident, row[0])},\n   {emit(ident, row[1])}, {'true' if row[2] else 'false'})")
            lines.append(f"Definition {ident} : list (re * re * bool) := [\n" + ";\n".join(rows) + "\n].\n\n")
            names[ident] = [r[0].pattern for r in val]
            continue
        for short, attr, val in users:
            ident = f"re_{short}_{attr}"
            if ident in names:
                continue
            # defined where? imported names appear in several modules: keep the defining module only
            names[ident] = val.pattern
            lines.append(f"(* {short}.{attr} = {_safe(val.pattern)} flags={int(val.flags)} *)\n")
            lines.append(f"Definition {ident} : re := {emit(ident, val)}.\n\n")
    # patterns written inline in calls: re.sub(r"...", ...) with a constant pattern
    for path in sorted((REPO / "markdown_it").rglob("*.py")):
        if "cli" in path.parts:
            continue
        tree = ast.parse(path.read_text())
        k = 0
        for node in ast.walk(tree):
            if (isinstance(node, ast.Call) and isinstance(node.func, ast.Attribute) and isinstance(node.func.value, ast.Name)
                    and node.func.value.id == "re" and node.func.attr in ("sub", "search", "match", "fullmatch", "split", "findall")):
                a0 = node.args[0] if node.args else None
                if not (isinstance(a0, ast.Constant) and isinstance(a0.value, str)):
                    raise GenError(f"{path.name}: re.{node.func.attr} with a non-constant pattern")
                fl = 0
                for kw in node.keywords:
                    if kw.arg == "flags":
                        try:
                            fl = int(eval(compile(ast.Expression(kw.value), "<flags>", "eval"), {"re": re}))
                        except Exception as e:  # noqa: BLE001
                            raise GenError(f"{path.name}: cannot evaluate flags: {e}")
                ident = f"re_{path.stem}_inline{k}"
                k += 1
                pat = re.compile(a0.value, fl)
                names[ident] = a0.value
                lines.append(f"(* {path.name}: re.{node.func.attr} {_safe(a0.value)} *)\n")
                lines.append(f"Definition {ident} : re := {emit(ident, pat)}.\n\n")
    write_if_changed(GEN / "Regexes.v", "".join(lines))
    _save_disk_cache()
    return names


# --------------------------------------------------------------------------
# character tables and the entity map


def _zlist(xs):
    return "[" + "; ".join(str(int(x)) for x in xs) + "]"


def gen_tables() -> dict:
    utils = importlib.import_module("markdown_it.common.utils")
    ents = importlib.import_module("markdown_it.common.entities").entities
    text_rule = importlib.import_module("markdown_it.rules_inline.text")
    escape_rule = importlib.import_module("markdown_it.rules_inline.escape")
    hb = importlib.import_module("markdown_it.common.html_blocks")
    mdurl_enc = importlib.import_module("mdurl._encode")
    nurl = importlib.import_module("markdown_it.common.normalize_url")
    lines = [HEADER]

    def need(mod, name, typ):
        v = getattr(mod, name, None)
        if not isinstance(v, typ):
            raise GenError(f"{mod.__name__}.{name} is missing or not a {typ}")
        return v

    ws = sorted(need(utils, "MD_WHITESPACE", (set, frozenset)))
    punct = sorted(need(utils, "MD_ASCII_PUNCT", (set, frozenset)))
    term = need(text_rule, "_TerminatorChars", (set, frozenset))
    term = sorted(ord(c) if isinstance(c, str) else int(c) for c in term)
    esc = need(escape_rule, "_ESCAPED", (list, tuple, set, frozenset))
    esc = sorted(ord(c) if isinstance(c, str) else int(c) for c in esc)
    pyspace = [c for c in range(0x110000) if chr(c).isspace()]
    lines.append(f"Definition md_whitespace : list Z := {_zlist(ws)}.\n")
    lines.append(f"Definition md_ascii_punct : list Z := {_zlist(punct)}.\n")
    lines.append(f"Definition text_terminators : list Z := {_zlist(term)}.\n")
    lines.append(f"Definition escaped_table : list Z := {_zlist(esc)}.\n")
    lines.append("(* str.isspace() == the characters str.strip() removes == re \\s, asked of CPython *)\n")
    lines.append(f"Definition py_space : list Z := {_zlist(pyspace)}.\n")
    lines.append(f"Definition html_block_names : list str := {coq_strs(list(need(hb, 'block_names', list)))}.\n")
    lines.append(f"Definition encode_default_chars : str := {coq_str(need(mdurl_enc, 'ENCODE_DEFAULT_CHARS', str))}.\n")
    lines.append(f"Definition recode_hostname_for : list str := {coq_strs(list(need(nurl, 'RECODE_HOSTNAME_FOR', tuple)))}.\n")
    write_if_changed(GEN / "Tables.v", "".join(lines))
    # entities: name -> characters
    el = [HEADER, "Definition entity_table : list (str * str) := [\n"]
    el.append(";\n".join(f"  ({coq_str(k)}, {coq_str(v)})" for k, v in ents.items()))
    el.append("\n].\n")
    write_if_changed(GEN / "Entities.v", "".join(el))
    return {"entities": len(ents), "terminators": term}


def gen_all(tolerant: bool = False) -> dict:
    """Regenerate every Gen/*.v from /repo.  Strict by default: any part that cannot be translated raises GenError (fail closed).
    With tolerant=True the parts no check reads back (ruler shape, regexes, tables) may fail: their Gen file then stays as the last
    successful translation left it - the model of the code as it was - and the errors are returned under "errors", so that the
    caller can still run model and implementation side by side and look for a concrete failing input before it reports."""
    out = {"rules": gen_rules(), "presets": gen_presets()}
    errors = []
    for name, f in (("ruler_shape", gen_ruler_shape), ("regexes", gen_regexes), ("tables", gen_tables)):
        try:
            out[name] = f()
        except GenError as e:
            if not tolerant:
                raise
            out[name] = None
            errors.append(f"{name}: {e}")
    if errors:
        out["errors"] = errors
    return out


if __name__ == "__main__":
    r = gen_all()
    print(json.dumps({k: (list(v) if isinstance(v, dict) else v) for k, v in r.items()}, default=str)[:400])
