"""C11 — rule management coherent over any history.
Correspondence: random histories on the real Ruler / MarkdownIt vs the Gallina model
(extracted + in-kernel sample).  Direct property evaluation on the implementation:
applied (getRules) == reported (active rules, registration order, chain filter)."""
from __future__ import annotations

import importlib

from common import (Opt, Reporter, TRUSTED_COMMON, exc_code, rng_for, run_kernel, run_model,
                    shrink_list, sx, unsx)

KNOWN = ["a", "b", "c", "d", "e", "f"]
UNKNOWN = ["zz", "nope"]
CHAINS = ["", "x", "y"]


# ---------------------------------------------------------------- ruler level

def gen_history(rng, n):
    ops = []
    fn = [0]

    def newfn():
        fn[0] += 1
        return fn[0]

    def name(p_unknown=0.15):
        return rng.choice(UNKNOWN) if rng.random() < p_unknown else rng.choice(KNOWN)

    def alt():
        return rng.sample(["x", "y"], rng.choice([0, 0, 1, 1, 2]))

    def names():
        k = rng.choice([0, 1, 1, 2, 2, 3, 4])
        return [name(0.12) for _ in range(k)]

    probe_all = rng.random() < 0.5
    for _ in range(n):
        r = rng.random()
        if r < 0.22:
            ops.append((3, name(0.0), newfn(), alt()))
        elif r < 0.30:
            ops.append((1, name(), name(0.02), newfn(), alt()))
        elif r < 0.38:
            ops.append((2, name(), name(0.02), newfn(), alt()))
        elif r < 0.44:
            ops.append((0, name(), newfn(), alt()))
        elif r < 0.58:
            ops.append((4, names(), rng.random() < 0.4))
        elif r < 0.70:
            ops.append((5, names(), rng.random() < 0.4))
        elif r < 0.84:
            ops.append((6, names(), rng.random() < 0.4))
        elif r < 0.94:
            ops.append((7, rng.choice(CHAINS)))
        elif r < 0.97:
            ops.append((8,))
        else:
            ops.append((9,))
        if probe_all:
            for c in CHAINS:
                ops.append((7, c))
            ops.append((9,))
    for c in CHAINS:
        ops.append((7, c))
    ops += [(8,), (9,)]
    return ops


def names_arg(rng_bits, names):
    # the three accepted spellings of `names`
    if len(names) == 1 and rng_bits % 2 == 0:
        return names[0]
    if rng_bits % 3 == 0:
        return tuple(names)
    return list(names)


def apply_ruler_op(ruler, op, k=0):
    t = op[0]
    if t == 0:
        opts = {"alt": list(op[3])} if (op[3] or k % 2) else None
        ruler.at(op[1], op[2], opts)
        return [0]
    if t == 1:
        ruler.before(op[1], op[2], op[3], {"alt": list(op[4])} if (op[4] or k % 2) else None)
        return [0]
    if t == 2:
        ruler.after(op[1], op[2], op[3], {"alt": list(op[4])} if (op[4] or k % 2) else {})
        return [0]
    if t == 3:
        ruler.push(op[1], op[2], {"alt": list(op[3])} if (op[3] or k % 2) else None)
        return [0]
    # "not asked to ignore" is also spelled by leaving the argument out (the documented default)
    ign = ((op[2],) if (op[2] or k % 2) else ()) if t in (4, 5, 6) else ()
    if t == 4:
        return [1, [list(map(ord, s)) for s in ruler.enable(names_arg(k, op[1]), *ign)]]
    if t == 5:
        return [1, [list(map(ord, s)) for s in ruler.enableOnly(names_arg(k, op[1]), *ign)]]
    if t == 6:
        return [1, [list(map(ord, s)) for s in ruler.disable(names_arg(k, op[1]), *ign)]]
    if t == 7:
        return [2, list(ruler.getRules(op[1]))]
    if t == 8:
        return [1, [list(map(ord, s)) for s in ruler.get_all_rules()]]
    return [1, [list(map(ord, s)) for s in ruler.get_active_rules()]]


def run_impl_history(ops):
    from markdown_it.ruler import Ruler

    r = Ruler()
    out = []
    for k, op in enumerate(ops):
        try:
            out.append([0, apply_ruler_op(r, op, k)])
        except Exception as e:  # noqa: BLE001
            out.append([1, exc_code(e)])
    return out, r


def spec_step(spec, op):
    """the 'obvious set semantics' of the property, on a list of [name, enabled]: first match by name"""
    t = op[0]

    def find(n):
        for i, x in enumerate(spec):
            if x[0] == n:
                return i
        return -1
    if t == 0:
        return  # replace: name and enabled flag unchanged
    if t in (1, 2):
        i = find(op[1])
        if i >= 0:
            spec.insert(i if t == 1 else i + 1, [op[2], True])
        return
    if t == 3:
        spec.append([op[1], True])
        return
    if t in (4, 5, 6):
        if t == 5:
            for x in spec:
                x[1] = False
        for n in op[1]:
            i = find(n)
            if i < 0:
                if op[2]:
                    continue
                return  # raises: names before it were processed
            spec[i][1] = t != 6


def direct_property(ops):
    """applied == reported on the implementation, and reported == the set semantics of the
    calls, after every prefix; returns None or a description of the first failure."""
    from markdown_it.ruler import Ruler

    r = Ruler()
    spec = []
    for k, op in enumerate(ops):
        try:
            apply_ruler_op(r, op, k)
        except Exception:  # noqa: BLE001
            pass
        spec_step(spec, op)
        if r.get_all_rules() != [x[0] for x in spec] or r.get_active_rules() != [x[0] for x in spec if x[1]]:
            return {"after_op": k, "op": list(op), "reported_all": r.get_all_rules(), "reported_active": r.get_active_rules(),
                    "expected_all": [x[0] for x in spec], "expected_active": [x[0] for x in spec if x[1]],
                    "what": "reported rule set does not follow the set semantics of the calls"}
        if op[0] == 7:
            continue  # probes themselves
        rules = getattr(r, "__rules__", None)
        for chain in CHAINS:
            applied = list(r.getRules(chain))
            active = r.get_active_rules()
            if rules is not None:
                expect = [x.fn for x in rules if x.enabled and (not chain or chain in x.alt)]
                rep = [x.name for x in rules if x.enabled]
                if applied != expect or rep != active:
                    return {"after_op": k, "chain": chain, "applied": applied, "expected_from_active": expect,
                            "reported": active}
    return None


# ---- the consumers: every parser asks the Ruler for the chain it documents, and calls what it is given ----
CONSUMER_DOCS = {
    # chain -> a document in which that terminator chain is consulted (a continuation line after the construct)
    "paragraph": "alpha\nbeta\n",
    "reference": "[foo]: /url 'multi\nline'\n\n[foo]\n",
    "blockquote": "> quoted\nlazy\n",
    "list": "- item\n\n- second\nlazy\n",
}


def consumer_property(preset="commonmark"):
    """A probe rule registered with alt=[chain] (silent calls recorded, never matches) must be called
    in silent mode while a document that consults that chain is parsed iff the Ruler reports it active;
    a probe with alt=[] is called non-silently at every block start.  None or a description."""
    from markdown_it import MarkdownIt

    for chain, doc in CONSUMER_DOCS.items():
        for enabled in (True, False):
            md = MarkdownIt(preset)
            if chain not in md.get_active_rules()["block"]:
                continue  # the rule that consults this chain is off under this preset
            calls = {"silent": 0, "loud": 0}

            def probe(state, startLine, endLine, silent, calls=calls):
                calls["silent" if silent else "loud"] += 1
                return False
            md.block.ruler.before("paragraph", "probe_" + chain, probe, {"alt": [chain]})
            if not enabled:
                md.disable("probe_" + chain)
            reported = "probe_" + chain in md.get_active_rules()["block"]
            in_chain = probe in md.block.ruler.getRules(chain)
            try:
                md.parse(doc)
            except Exception as e:  # noqa: BLE001
                return {"what": "parse raised with a probe rule registered", "chain": chain, "error": repr(e)}
            if reported != enabled or in_chain != enabled:
                return {"what": "probe rule misreported", "chain": chain, "enabled": enabled, "reported_active": reported,
                        "in_getRules(chain)": in_chain}
            if (calls["silent"] > 0) != enabled:
                return {"what": "a rule reported in getRules(%r) is %s while a document that consults that chain is parsed"
                                % (chain, "never called" if enabled else "called although disabled"),
                        "preset": preset, "chain": chain, "document": doc, "enabled": enabled, "silent_calls": calls["silent"],
                        "replay": "md=MarkdownIt(%r); md.block.ruler.before('paragraph','probe',fn,{'alt':[%r]}); md.parse(%r)"
                                  % (preset, chain, doc)}
            if (calls["loud"] > 0) != enabled:
                return {"what": "main-chain call of the probe does not follow its enabled state", "chain": chain,
                        "enabled": enabled, "loud_calls": calls["loud"]}
    return None


def encode_history(ops):
    return sx([11, [list(o) for o in ops]])


# ---------------------------------------------------------------- facade level

PROBES = ["", "paragraph", "reference", "blockquote", "list", "x"]


def optval(v):
    if v is None:
        return [0]
    if isinstance(v, bool):
        return [1, v]
    if isinstance(v, int):
        return [2, v]
    if isinstance(v, str):
        return [3, v]
    if isinstance(v, (list, tuple)):
        return [4, list(v)]
    return [5, getattr(v, "tag", 0)]


def gen_facade_history(rng, n, presets, registry, depth=0):
    allnames = sorted({nm for ch in registry.values() for nm, _ in ch})
    ops = []
    fn = [1000 + 100 * depth + rng.randrange(50)]

    def newfn():
        fn[0] += 1
        return fn[0]

    def names():
        k = rng.choice([1, 1, 2, 3, 5])
        return [rng.choice(UNKNOWN + ["x_new"]) if rng.random() < 0.12 else rng.choice(allnames) for _ in range(k)]

    for _ in range(n):
        r = rng.random()
        if r < 0.25:
            ops.append([0, names(), rng.random() < 0.4])
        elif r < 0.50:
            ops.append([1, names(), rng.random() < 0.4])
        elif r < 0.66:
            which = rng.randrange(4)
            chain = ["core", "block", "inline", "inline2"][which]
            local = [nm for nm, _ in registry[chain]]
            t = rng.choice([0, 1, 2, 3, 3, 4, 5, 6, 7])
            nm = lambda: rng.choice(local + ["x_new"]) if rng.random() < 0.85 else rng.choice(UNKNOWN)  # noqa: E731
            alt = rng.sample(["paragraph", "reference", "x"], rng.choice([0, 1, 2]))
            if t == 0:
                op = [0, nm(), newfn(), alt]
            elif t in (1, 2):
                op = [t, nm(), "x_new", newfn(), alt]
            elif t == 3:
                op = [3, rng.choice(["x_new", "x_new2"]), newfn(), alt]
            elif t in (4, 5, 6):
                op = [t, [nm() for _ in range(rng.choice([1, 2, 3]))], rng.random() < 0.4]
            else:
                op = [7, rng.choice(PROBES)]
            ops.append([2, which, op])
        elif r < 0.76:
            if rng.random() < 0.75:
                pname = rng.choice(sorted(presets))
                p = presets[pname]
                upd = rng.choice([[], [["html", True]], [["maxNesting", 7], ["foo", "bar"]], [["quotes", ["a", "b", "c", "d"]]]])
                ops.append([3, ("name", pname), upd])
            else:
                # user-supplied dict preset, possibly with an unknown rule name
                comps = []
                for cname in rng.sample(["core", "block", "inline"], rng.choice([1, 2, 3])):
                    chain_names = [nm for nm, _ in registry[cname]]
                    rules = rng.sample(chain_names, rng.randrange(1, len(chain_names) + 1))
                    if rng.random() < 0.25:
                        rules.insert(rng.randrange(len(rules) + 1), "nope")
                    rules2 = None
                    if cname == "inline" and rng.random() < 0.6:
                        rules2 = rng.sample([nm for nm, _ in registry["inline2"]], rng.randrange(0, 5))
                    comps.append([cname, rules if rng.random() < 0.9 else None, rules2])
                ops.append([3, ("dict", {"options": {"html": rng.random() < 0.5, "maxNesting": rng.choice([5, 20])},
                                          "components": comps}), []])
        elif r < 0.84:
            k = rng.choice(["html", "breaks", "typographer", "maxNesting", "langPrefix", "quotes", "store_labels"])
            v = {"html": rng.random() < 0.5, "breaks": rng.random() < 0.5, "typographer": rng.random() < 0.5,
                 "maxNesting": rng.choice([1, 10, 50]), "langPrefix": rng.choice(["lang-", ""]),
                 "quotes": rng.choice(["«»‹›", ["<<", ">>", "<", ">"]]), "store_labels": True}[k]
            ops.append([4, k, v, rng.random() < 0.5])
        elif r < 0.88:
            ops.append([6, rng.choice(["fence", "image", "my_token"]), newfn(), rng.random() < 0.8])
        elif r < 0.94 and depth < 2:
            body = gen_facade_history(rng, rng.randrange(0, 4), presets, registry, depth + 1)
            ops.append([10, body, rng.choice([None, None, 3])])
        else:
            ops.append([rng.choice([7, 8, 9])])
    return ops


class UserExc(Exception):
    verif_tag = 3


def facade_env():
    """fresh instance + id map of built-in functions"""
    from markdown_it import MarkdownIt

    md = MarkdownIt("zero")
    # undo what the constructor's configure() did, so the run starts from the
    # bare post-__init__ state the model starts from: the model replays configure
    return md


def apply_facade_op(md, op, fnid):
    from markdown_it.utils import OptionsDict  # noqa: F401

    t = op[0]
    if t in (0, 1):
        ign = (op[2],) if (op[2] or len(op[1]) % 2) else ()     # the default spelled by omission, too
        (md.enable if t == 0 else md.disable)(names_arg(len(op[1]) + t, op[1]), *ign)
        return [0]
    if t == 2:
        which, rop = op[1], op[2]
        ruler = [md.core.ruler, md.block.ruler, md.inline.ruler, md.inline.ruler2][which]
        apply_ruler_op(ruler, tuple(rop), which)
        return [0]
    if t == 3:
        kind, p = op[1]
        upd = {k: (tuple(v) if False else v) for k, v in op[2]} or None
        if kind == "name":
            md.configure(p, options_update=upd)
        else:
            cfg = {"options": dict(p["options"]), "components": {}}
            for cname, rules, rules2 in p["components"]:
                c = {}
                if rules is not None:
                    c["rules"] = list(rules)
                if rules2 is not None:
                    c["rules2"] = list(rules2)
                cfg["components"][cname] = c
            md.configure(cfg, options_update=upd)
        return [0]
    if t == 4:
        k, v, by_attr = op[1], op[2], op[3]
        if by_attr and k in ("html", "breaks", "typographer", "maxNesting", "langPrefix", "quotes"):
            setattr(md.options, k, v)
        else:
            md.options[k] = v
        return [0]
    if t == 6:
        def fn(self, tokens, idx, options, env):  # pragma: no cover
            return ""
        fn.tag = op[2]
        md.add_render_rule(op[1], fn, "html" if op[3] else "latex")
        return [0]
    if t == 7:
        a = md.get_active_rules()
        return [1] + [[list(map(ord, s)) for s in a[c]] for c in ("core", "block", "inline", "inline2")]
    if t == 8:
        a = md.get_all_rules()
        return [1] + [[list(map(ord, s)) for s in a[c]] for c in ("core", "block", "inline", "inline2")]
    if t == 9:
        return [2, enc_opts_py(md.options)]
    if t == 10:
        with md.reset_rules():
            for o in op[1]:
                apply_facade_op(md, o, fnid)
            if op[2] is not None:
                raise UserExc()
        return [0]
    raise AssertionError(t)


def enc_val_py(v):
    x = optval(v)
    if x[0] == 3:
        return [3, list(map(ord, x[1]))]
    if x[0] == 4:
        return [4, [list(map(ord, s)) for s in x[1]]]
    if x[0] == 1:
        return [1, int(x[1])]
    return x


def enc_opts_py(options):
    return [[list(map(ord, k)), enc_val_py(options[k])] for k in options]


def observe_py(md, fnid):
    def ch(r):
        return [[list(map(ord, s)) for s in r.get_all_rules()], [list(map(ord, s)) for s in r.get_active_rules()],
                [[fnid(f) for f in r.getRules(c)] for c in PROBES]]

    rr = []
    for name, f in md.renderer.rules.items():
        tag = getattr(getattr(f, "__func__", f), "tag", None)
        if tag is not None:
            rr.append([list(map(ord, name)), tag])
    return [enc_opts_py(md.options), ch(md.core.ruler), ch(md.block.ruler), ch(md.inline.ruler), ch(md.inline.ruler2),
            sorted(rr)]


def mop_wire(op):
    t = op[0]
    if t == 2:
        return [2, op[1], list(op[2])]
    if t == 3:
        kind, p = op[1]
        if kind == "name":
            pr = PRESETS_CACHE.get(p)
            enc = Opt(None) if pr is None else Opt(preset_wire(pr))
        else:
            enc = Opt([[[k, optval(v)] for k, v in p["options"].items()],
                       [[c, Opt(r), Opt(r2)] for c, r, r2 in p["components"]]])
        return [3, enc, [[k, optval(v)] for k, v in op[2]]]
    if t == 4:
        return [4, op[1], optval(op[2])]
    if t == 6:
        return [6, op[1], op[2], op[3]]
    if t == 10:
        return [10, [mop_wire(o) for o in op[1]], Opt(op[2])]
    return list(op)


PRESETS_CACHE: dict = {}


def preset_wire(p):
    return [[[k, optval(v)] for k, v in p["options"].items()],
            [[c, Opt(comp.get("rules")), Opt(comp.get("rules2"))] for c, comp in p["components"].items()]]


def run_facade_impl(ops):
    """ops[0] is the constructor call (a configure by preset name + options_update);
    the model replays it as configure() on the bare post-__init__ instance."""
    from markdown_it import MarkdownIt

    first = ops[0]
    assert first[0] == 3 and first[1][0] == "name"
    md = MarkdownIt(first[1][1], {k: v for k, v in first[2]} or None)
    ids = {}
    for r in (md.core.ruler, md.block.ruler, md.inline.ruler, md.inline.ruler2):
        for k, rule in enumerate(r.__rules__):
            ids[(id(r), id(rule.fn))] = k

    def fnid_for(r):
        return lambda f: f if isinstance(f, int) else ids.get((id(r), id(f)), -1)

    def observe():
        def ch(r):
            fi = fnid_for(r)
            return [[list(map(ord, s)) for s in r.get_all_rules()], [list(map(ord, s)) for s in r.get_active_rules()],
                    [[fi(f) for f in r.getRules(c)] for c in PROBES]]
        rr = []
        for name, f in md.renderer.rules.items():
            tag = getattr(getattr(f, "__func__", f), "tag", None)
            if tag is not None:
                rr.append([list(map(ord, name)), tag])
        return [enc_opts_py(md.options), ch(md.core.ruler), ch(md.block.ruler), ch(md.inline.ruler),
                ch(md.inline.ruler2), sorted(rr)]

    out = [[[0, [0]], observe()]]
    for op in ops[1:]:
        try:
            res = [0, apply_facade_op(md, op, None)]
        except Exception as e:  # noqa: BLE001
            res = [1, exc_code(e)]
        out.append([res, observe()])
    return out


def canon_model_facade(v):
    for step in v:
        step[1][5] = sorted(step[1][5])
    return v


# ---------------------------------------------------------------- the check

def run(ctx) -> int:
    rep: Reporter = ctx["rep"]
    tier, seed = ctx["tier"], ctx["seed"]
    gen = ctx["gen"]
    PRESETS_CACHE.clear()
    PRESETS_CACHE.update(gen["presets"])
    n_hist = 800 if tier == "quick" else 12000
    max_len = 40 if tier == "quick" else 400
    n_fac = 250 if tier == "quick" else 3000
    rng = rng_for("C11", seed)

    # 1. ruler histories
    hists = [gen_history(rng, rng.randrange(1, max_len if k % 10 else max_len * 1)) for k in range(n_hist)]
    # corpus first: the history that refutes the unrepaired code
    hists.insert(0, [(3, "a", 1, []), (3, "b", 2, []), (7, ""), (5, ["a", "nope"], False), (7, ""), (9,)])
    lines = [encode_history(h) for h in hists]
    model_out = run_model(lines)
    disagreements = []
    distinct = set()
    n_raise = 0
    op_hist = [0] * 10
    for h, line, mo in zip(hists, lines, model_out):
        impl, _ = run_impl_history(h)
        for o in h:
            op_hist[o[0]] += 1
        n_raise += sum(1 for x in impl if x[0] == 1)
        if any(o[0] in (0, 1, 2, 3) for o in h) and any(o[0] in (4, 5, 6) for o in h):
            distinct.add(line)
        if unsx(mo) != impl:
            disagreements.append(("ruler", h, unsx(mo), impl))
    # direct property on the implementation
    direct_fail = None
    for h in hists:
        d = direct_property(h)
        if d is not None:
            direct_fail = (h, d)
            break

    if direct_fail is None:
        for preset in ("commonmark", "js-default", "zero"):
            cp = consumer_property(preset)
            if cp is not None:
                direct_fail = ("consumer", cp)
                break

    # 2. facade histories
    registry = gen["rules"]
    fh = []
    for k in range(n_fac):
        ops = [[3, ("name", rng.choice(sorted(gen["presets"]))), []]] + gen_facade_history(
            rng, rng.randrange(1, 25 if tier == "quick" else 80), gen["presets"], registry)
        fh.append(ops)
    flines = [sx([12, [True, PROBES, [mop_wire(o) for o in ops]]]) for ops in fh]
    fmodel = run_model(flines)
    n_fac_raise = 0
    for ops, line, mo in zip(fh, flines, fmodel):
        impl = run_facade_impl(ops)
        n_fac_raise += sum(1 for x in impl if x[0][0] == 1)
        m = unsx(mo)
        # model encodes results as (0 (k ...)) / (1 code); observation second
        mm = canon_model_facade(m) if isinstance(m, list) else m
        # impl result payload [0,[0]] etc. -> same shape as model
        if mm != impl:
            disagreements.append(("facade", ops, mm, impl))
        distinct.add(line)

    # 3. in-kernel sample
    ksample = [(l, m) for l, m in list(zip(lines, model_out))[:: max(1, len(lines) // 120)]]
    ksample += [(l, m) for l, m in list(zip(flines, fmodel))[:: max(1, len(flines) // 30)]]
    kn, kbad = run_kernel(ksample, "c11")

    # ---- outcome
    proofs = ctx["proofs"]
    if direct_fail and direct_fail[0] == "consumer":
        rep.violation("applied-ne-reported", {"consumer": direct_fail[1]})
    elif direct_fail:
        h, d = direct_fail
        small = shrink_list(h, lambda c: direct_property(c) is not None)
        rep.violation("applied-ne-reported", {"history": small, "observed": direct_property(small),
                                               "how": "Ruler ops as (code,args): 0 at,1 before,2 after,3 push,4 enable,5 enableOnly,6 disable,7 getRules,8 all,9 active"})
    elif disagreements or not proofs["ok"] or kbad:
        # model and implementation differ or a proof broke: search the implementation for a failing history
        found = None
        srng = rng_for("C11", seed, "search")
        for _ in range(20000 if tier == "quick" else 200000):
            h = gen_history(srng, srng.randrange(1, 30))
            if direct_property(h) is not None:
                found = h
                break
        if found:
            small = shrink_list(found, lambda c: direct_property(c) is not None)
            rep.violation("applied-ne-reported", {"history": small, "observed": direct_property(small)})
        else:
            what = {}
            if not proofs["ok"]:
                what["broken_proof"] = proofs["failed"]
            if disagreements:
                kind, h, m, i = disagreements[0]
                if kind == "ruler":
                    small = shrink_list(h, lambda c: unsx(run_model([encode_history(c)])[0]) != run_impl_history(c)[0])
                    what["correspondence"] = {"level": "Ruler history", "history": small,
                                              "model": unsx(run_model([encode_history(small)])[0]),
                                              "implementation": run_impl_history(small)[0]}
                else:
                    def bad(c):
                        mo = unsx(run_model([sx([12, [True, PROBES, [mop_wire(o) for o in c]]])])[0])
                        return canon_model_facade(mo) != run_facade_impl(c)
                    small = shrink_list(h, bad)
                    what["correspondence"] = {"level": "MarkdownIt facade history", "history": small}
            if kbad:
                what["kernel_vs_extracted"] = kbad[:5]
            rep.violation("model-correspondence", what, no_input=True)

    cov = {
        "obligations": len(proofs["obligations"]),
        "discharged": len(proofs["discharged"]),
        "checker_cmd": "make Props/C11.vo (coqc 8.16.1, full .vo) via /verif/build.sh",
        "trusted_base": TRUSTED_COMMON + ["Ruler/MarkdownIt methods modelled line by line (Model/Ruler.v, Model/Instance.v); rule functions are opaque tags"],
        "theorems": proofs["obligations"],
        "print_assumptions": proofs["assumptions"],
        "evaluations": len(hists) + len(fh),
        "distinct_nontrivial": len(distinct),
        "rule": "random Ruler histories (len<=%d) over 6 known + 2 unknown names with duplicates, 3 chains, probes after every step in half of them; facade histories on a real MarkdownIt (configure/enable/disable/ruler ops/options/render rules/nested reset_rules). non-trivial = has a registration op and an enable/disable op (ruler) or any facade history; distinct by wire text" % max_len,
        "samples": [hists[1][:8], fh[0][:5]],
        "traces_validated_against_impl": len(hists) + len(fh),
        "in_kernel_cases": kn,
        "in_kernel_mismatches": len(kbad),
        "disagreements": len(disagreements),
        "op_histogram_ruler(at,before,after,push,enable,enableOnly,disable,getRules,all,active)": op_hist,
        "raising_calls_ruler": n_raise,
        "raising_calls_facade": n_fac_raise,
    }
    return rep.finish("proof", cov, [
        "rule functions are compared by identity (tags); the theorem is parametric in the function type",
        "names passed as str / tuple / list are the same call (normalised by the harness)",
    ])
