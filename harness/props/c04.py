"""C04 — with raw HTML off, output is well-formed and contains only renderer-made markup.

Proof: Props/C04.v (escapeHtml is safe for every string; with no html tokens and no
highlight the renderer emits only its own literals and escaped data).  Correspondence
(binding): RendererHTML.render vs the chunk model on parser-produced streams under html-off
configurations and all renderer options.  Property on the implementation: a strict HTML
checker (nesting, tag and attribute vocabulary, escaping) on render/renderInline output,
with metacharacters placed in every data slot."""
from __future__ import annotations

import copy
import json

from common import (Reporter, conclude, guarded, proof_cov, rng_for, run_kernel, run_model, supported, sx, unsx)
import configs
import docs
import htmlcheck
import tok

META = ['<', '>', '"', "'", '&', '&amp;', '&lt;', '&#60;', '&quot;', '<script>alert(1)</script>', '"><img src=x>', "`", "\\<", "a&b", "]]>",
        "&#x22;", "&#62;", "javascript:x", "\x00", "<!--", "<?", "</a>", " onload=\"x\"", "é\"<"]


def slot_doc(rng):
    m = lambda: rng.choice(META)  # noqa: E731
    forms = [
        lambda: f"![x {m()} y](/img.png \"t {m()}\")",
        lambda: f"[l {m()}](/u{m()} '{m()}')",
        lambda: f"[l](<u {m()}> \"{m()}\")",
        lambda: f"```{m()} a{m()}\n{m()}\n```",
        lambda: f"~~~ {m()}\nc {m()}\n~~~",
        lambda: f"    {m()} code",
        lambda: f"`{m()}`",
        lambda: f"| a {m()} | b |\n|:--|--:|\n| {m()} | `{m()}` |",
        lambda: f"# h {m()}",
        lambda: f"> q {m()}\n> - i {m()}",
        lambda: f"[r]: /u{m()} \"{m()}\"\n\n[t {m()}][r] ![a {m()}][r]",
        lambda: f"<{m()}> <http://x.y/{m()}> <a@b.c>",
        lambda: f"{m()} *e {m()}* **s** ~~d {m()}~~",
        lambda: f"1. x {m()}\n2. y",
        lambda: f"<div>{m()}</div>\n\n<b>{m()}</b> text",
        lambda: f"\\{m()} &{m()};",
        lambda: docs.flanking_soup(rng) + f" {m()}",
        lambda: "- " + docs.flanking_soup(rng) + f"\n\n> [{docs.flanking_soup(rng)}](/u)",
        # pairs whose closing run is longer / shorter than the opening one, inside link text: the closers must stay inside
        lambda: rng.choice(["[~~a~~~](u)", "[~~~a~~~](u)", "x [b ~~c~~~](/url \"t\") y", "[**a***](u)", "[*a [b*](u)", "[~~a](u)~~ ~",
                            "~~[x ~~y~~~](/u)~~", "[~~a~~~~~](u) ~~b~~~", "![~~a~~~](u) [_a__](v)"]) + f" {m()}",
    ]
    return "\n\n".join(rng.choice(forms)() for _ in range(rng.randrange(1, 4))) + "\n"


def html_off_config(rng):
    cfg = configs.random_config(rng, html=False)
    cfg["options"].pop("highlight", None)
    return cfg


def supported_c04(md) -> bool:
    """C04 quantifies over any rule subset: any core rule may be off too (text_join off: escapes and entities reach
    the renderer as text_special tokens; inline off: inline tokens without children; normalize off: CR / NUL in
    the source); only the fallback rules that progress needs stay, as for C01"""
    a = md.get_active_rules()
    return "paragraph" in a["block"] and "text" in a["inline"]


def direct_property(cfg, src):
    md = configs.make_md(cfg)
    if not supported_c04(md) or md.options.get("html"):
        return None
    for api in ("render", "renderInline"):
        try:
            out = guarded(getattr(md, api), src)
        except Exception:  # noqa: BLE001
            return None
        bad = htmlcheck.check(out)
        if bad:
            return {"api": api, "problem": bad, "html": out[:600]}
    return None


HISTORY_DOCS = ["1 \\< 2 \\> 0 &amp; &lt;b&gt; \\& \"q\"\n", "AT&amp;T \\<script\\> &#60;\n", "[l \\<](/u \"t \\>\") ![a &lt;](/s)\n",
                "# h \\< &gt;\n\n> q \\&\n\n- i &amp; \\<\n\n| c \\< |\n|---|\n| &lt; |\n"]


def history_property(cfg):
    """An instance whose REPORTED configuration is html-off and supported, reached through a history of
    management calls (reset_rules blocks, configure again, disable/enable round trips), must produce
    safe output like a fresh one: the property quantifies over configurations, however reached."""
    import contextlib
    histories = {
        "reset_rules block that disables text_join and parses": lambda md: _block(md, ["text_join"]),
        "reset_rules block that disables escape, entity and parses": lambda md: _block(md, ["escape", "entity"]),
        "disable text_join, parse, enable again": lambda md: (md.disable("text_join"), md.parse("a \\< b"), md.enable("text_join")),
        "disable text_join, parse, configure the same preset again": lambda md: (md.disable("text_join"), md.parse("a \\< b"),
                                                                                 md.configure(cfg["preset"], dict(cfg["options"]))),
    }

    def _block(md, names):
        with md.reset_rules():
            md.disable(names)
            md.parse("some *text* \\< &amp;")

    for what, h in histories.items():
        md = configs.make_md(cfg)
        if not supported(md) or md.options.get("html"):
            return None
        try:
            with contextlib.suppress(KeyError, ValueError):
                h(md)
        except Exception:  # noqa: BLE001
            continue
        if not supported(md) or md.options.get("html"):
            continue
        for src in HISTORY_DOCS:
            for api in ("render", "renderInline"):
                try:
                    out = guarded(getattr(md, api), src)
                except Exception:  # noqa: BLE001
                    continue
                bad = htmlcheck.check(out)
                if bad:
                    return {"history": what, "api": api, "src": src, "problem": bad, "html": out[:400],
                            "active_rules_equal_fresh": md.get_active_rules() == configs.make_md(cfg).get_active_rules()}
    return None


RAW_DOCS = ["<script>alert(1)</script>\n", "hello <img src=x onerror=\"alert(1)\"> world\n", "<div>\n*x*\n</div>\n\n<!-- c --> <b>t</b>\n"]


def preset_property():
    """The html-off presets stay html-off whatever other instances were built before in the same process: an instance made from
    the bare preset name after one made with an options_update (html switched on there) is the documented configuration."""
    from markdown_it import MarkdownIt
    for preset in ("js-default", "zero", "default"):
        try:
            first = MarkdownIt(preset, {"html": True, "xhtmlOut": True, "breaks": True})
            first.render(RAW_DOCS[0])
            md = MarkdownIt(preset)
            if preset == "zero":
                md.enable(["html_inline", "html_block"])
        except Exception:  # noqa: BLE001
            continue
        for src in RAW_DOCS:
            try:
                out = guarded(md.render, src)
            except Exception:  # noqa: BLE001
                continue
            bad = htmlcheck.check(out)
            if bad:
                return {"history": f"MarkdownIt({preset!r}, {{'html': True, ...}}) built and used, then MarkdownIt({preset!r}) built bare",
                        "src": src, "problem": bad, "html": out[:400], "options.html of the bare instance": bool(md.options.get("html"))}
    return None


def run(ctx) -> int:
    rep: Reporter = ctx["rep"]
    tier, seed, proofs = ctx["tier"], ctx["seed"], ctx["proofs"]
    rng = rng_for("C04", seed)
    n = 1200 if tier == "quick" else 30000
    cases, expect, inputs = [], [], []
    direct = None
    n_dir = 0
    hrng = rng_for("C04", seed, "history")
    for hk in range(12 if tier == "quick" else 200):
        hcfg = dict(configs.STANDARD[hk % 5], options=dict(configs.STANDARD[hk % 5]["options"], html=False)) if hk < 5 else html_off_config(hrng)
        hcfg["options"].pop("highlight", None)
        n_dir += 1
        d = history_property(hcfg)
        if d:
            direct = {"config": hcfg, **d}
            break
    # the hand-made corner documents first, under the html-off forms of the two configurations that switch every rule on
    for cd in docs.corner_docs():
        for ci in (1, 2):
            if direct is not None:
                break
            ccfg = dict(configs.STANDARD[ci], options=dict(configs.STANDARD[ci]["options"], html=False))
            n_dir += 1
            d = direct_property(ccfg, cd)
            if d:
                direct = {"config": ccfg, "src": cd, **d}
    if direct is None:
        n_dir += 1
        d = preset_property()
        if d:
            direct = {"config": {"preset": "as named in the history"}, **d}
    for k in range(n):
        cfg = html_off_config(rng)
        if k % 5 == 0:   # html switched off after construction / rules enabled on an html-off preset
            cfg["enable"] = list(set(cfg["enable"]) | {"html_inline", "html_block"})
            cfg["disable"] = [x for x in cfg["disable"] if x not in ("html_inline", "html_block")]
        src = slot_doc(rng) if k % 2 else docs.random_doc(rng)
        if direct is None:
            n_dir += 1
            d = direct_property(cfg, src)
            if d:
                direct = {"config": cfg, "src": src, **d}
        md = configs.make_md(cfg)
        if k % 7 == 0:  # the option set by the other routes
            md = configs.make_md(dict(cfg, options=dict(cfg["options"], html=True)))
            if k % 14 == 0:
                md.options["html"] = False
            else:
                md.options.html = False
            if direct is None and supported(md):
                try:
                    bad = htmlcheck.check(guarded(md.render, src))
                except Exception:  # noqa: BLE001
                    bad = None
                if bad:
                    direct = {"config": cfg, "src": src, "route": "html switched off after construction",
                              "problem": bad}
        if not supported(md):
            continue
        try:
            ts = guarded(md.parse, src)
        except Exception:  # noqa: BLE001
            continue
        if not tok.encodable(ts):
            continue
        xh, br, lp = bool(md.options.get("xhtmlOut")), bool(md.options.get("breaks")), md.options.get("langPrefix", "language-")
        cases.append(sx([20, [[xh, br, lp, 0], tok.enc_tokens(ts)]]))
        t2 = copy.deepcopy(ts)
        try:
            expect.append((md.renderer.render(t2, md.options, {}), [tok.canon_py_token(t) for t in t2]))
        except Exception as e:  # noqa: BLE001
            expect.append((None, type(e).__name__))
        inputs.append({"config": cfg, "src": src})
    out = run_model(cases)
    disagreements = []
    for o, e, inp in zip(out, expect, inputs):
        m = unsx(o)
        if e[0] is None:
            ok = m[0] != 0
        else:
            ok = m[0] == 0 and tok.s_of(m[1][0]) == e[0] and [tok.canon_model_token(x) for x in m[1][1]] == e[1]
        if not ok:
            disagreements.append(inp)
    kn, kbad = run_kernel(list(zip(cases, out))[:: max(1, len(cases) // 40)], "c04")
    # string level: escapeHtml
    strs = [rng.choice(META) + docs.inline_text(rng) for _ in range(300)]
    from markdown_it.common.utils import escapeHtml
    so = run_model([sx([27, [0, s]]) for s in strs] + [sx([27, [1, s]]) for s in strs])
    for s, a, b in zip(strs, so[:len(strs)], so[len(strs):]):
        if tok.s_of(unsx(a) or []) != escapeHtml(s) or tok.s_of(unsx(b) or []) != escapeHtml(s):
            disagreements.append({"escapeHtml": s})

    # whole pipeline under html-off configurations (the end-to-end theorem C04_render_safe is about this model)
    pcases = []
    prng = rng_for("C04", seed, "pipeline")
    for k in range(300 if tier == "quick" else 8000):
        cfg = dict(html_off_config(prng), ruler2_off=[])
        if k % 5 == 0:
            cfg["enable"] = list(set(cfg["enable"]) | {"html_inline", "html_block"})
            cfg["disable"] = [x for x in cfg["disable"] if x not in ("html_inline", "html_block")]
        src = slot_doc(prng) if k % 2 else docs.random_doc(prng)
        pcases.append((cfg, "render" if k % 4 else "renderInline", src, None))
    import pipecheck
    n_pipe, pdis, pkn, pkbad, plines = pipecheck.correspond(pcases, "c04p", kernel_sample=10)
    # core rules switched off (any subset of text_join, inline, normalize, block): text_special tokens and inline tokens
    # without children at the renderer, CR / NUL in the source
    ucases = []
    urng = rng_for("C04", seed, "unjoined")
    for k in range(240 if tier == "quick" else 6000):
        cfg = dict(html_off_config(urng), ruler2_off=[])
        core_off = [["text_join"], ["inline"], ["text_join"], ["normalize"], ["block"], ["text_join", "normalize"]][k % 6] if k % 2 == 0 \
            else [x for x in ("text_join", "inline", "normalize", "block") if urng.random() < 0.4] or ["text_join"]
        cfg["disable"] = list(cfg["disable"]) + core_off
        src = HISTORY_DOCS[k % len(HISTORY_DOCS)] if k < 8 else (slot_doc(urng) if k % 2 else docs.random_doc(urng))
        if direct is None:
            n_dir += 1
            d = direct_property(cfg, src)
            if d:
                direct = {"config": cfg, "src": src, **d}
        ucases.append((cfg, "render" if k % 4 else "renderInline", src, None))
    n_u, udis, ukn, ukbad, ulines = pipecheck.correspond(ucases, "c04u", kernel_sample=5, support=supported_c04)
    n_pipe += n_u
    pdis += udis
    pkbad = list(pkbad) + list(ukbad)
    pkn += ukn
    plines = list(plines) + list(ulines)
    disagreements += pdis
    kbad = list(kbad) + list(pkbad)
    kn += pkn

    def search():
        srng = rng_for("C04", seed, "search")
        for _ in range(4000 if tier == "quick" else 80000):
            cfg = html_off_config(srng)
            src = slot_doc(srng) if srng.random() < 0.6 else docs.random_doc(srng)
            d = direct_property(cfg, src)
            if d:
                return {"config": cfg, "src": src, **d}
        return None

    conclude(rep, proofs, direct, "unsafe-html", disagreements, kbad, search,
             "RendererHTML.render / escapeHtml: model and implementation differ")
    cov = proof_cov("C04", proofs, ["C04_render_safe is about the pipeline model: its tie to the code is the whole-pipeline correspondence under html-off configurations of this run; balanced inline pairs in the output are checked on the implementation by the strict HTML checker (not a theorem)"])
    cov.update({
        "evaluations": len(cases) + n_dir + len(strs) + n_pipe, "distinct_nontrivial": len(set(cases)) + len(set(strs)) + len(set(plines)),
        "pipeline_cases": n_pipe,
        "rule": "html-off configurations (presets x random rule subsets x renderer options; html switched off by constructor, item and attribute assignment; html rules force-enabled; core rules switched off in any combination (text_special tokens / childless inline tokens at the renderer, unnormalised source); instances brought back to an html-off configuration through reset_rules blocks / configure / disable-enable round trips) x documents placing & < > \" ' ` and entity spellings in every data slot (alt, title, href, fence info/lang, code, cell, heading, reference, autolink) or generated documents; streams rendered by implementation and model; output of render and renderInline checked by a strict HTML grammar",
        "samples": inputs[:2], "traces_validated_against_impl": len(cases) + n_pipe, "html_checked": n_dir,
        "in_kernel_cases": kn, "in_kernel_mismatches": len(kbad), "disagreements": len(disagreements),
    })
    return rep.finish("proof", cov, ["default HTML renderer, no highlight callback (as the property states)"])


def replay_history(body) -> int:
    d = history_property(body["config"])
    print("C04 after a management history:", "VIOLATED " + json.dumps(d, default=str)[:1200] if d else "holds")
    return 1 if d else 0


def replay(body) -> int:
    if str(body.get("history", "")).startswith("MarkdownIt("):
        d = preset_property()
        print("C04 for a bare preset after another instance:", "VIOLATED " + json.dumps(d, default=str)[:1200] if d else "holds")
        return 1 if d else 0
    if "history" in body and "config" in body:
        return replay_history(body)
    if "config" in body and "src" in body:
        d = direct_property(body["config"], body["src"])
        print("C04 on implementation:", "VIOLATED " + json.dumps(d, default=str)[:1500] if d else "holds")
        return 1 if d else 0
    print(json.dumps(body, default=str)[:1500])
    return 0
