"""C05 — emitted link and image URLs are normalised and never carry a dangerous scheme.

Proof: Props/C05.v (alphabet of mdurl.encode for all strings; what validateLink guarantees
on that alphabet; composition for an arbitrary URL re-formatting function).
Correspondence (binding): mdurl.encode and validateLink (direct and regex forms) vs the
implementation.  Property on the implementation: every href/src on link_open/image tokens
and in rendered HTML, from inline links, reference links, autolinks and images, under html
on and off, is URL-safe ASCII and has no dangerous scheme as a browser reads it; rejected
constructs stay as literal text.  (Producer-side theorems belong to the inline model.)"""
from __future__ import annotations

import html as htmlmod
import json
import re
from html.parser import HTMLParser

from common import (Reporter, conclude, guarded, proof_cov, rng_for, run_kernel, run_model, supported, sx, unsx)
import configs
import docs
import tok

URL_OK = re.compile(r"[A-Za-z0-9;/?:@&=+$,\-_.!~*'()#%]*\Z")
SCHEMES = ["javascript", "vbscript", "file", "data", "JaVaScRiPt", "VBScript", "FILE", "Data", "data:image/png;base64,",
           "data:image/svg+xml;", "data:text/html,", "http", "mailto", "ftp", "x-y"]


def spell_scheme(rng, s):
    out = ""
    for ch in s:
        r = rng.random()
        if r < 0.15:
            out += f"&#{ord(ch)};"
        elif r < 0.25:
            out += f"&#x{ord(ch):x};"
        elif r < 0.3:
            out += "%" + f"{ord(ch):02x}"
        elif r < 0.4:
            out += ch.swapcase()
        elif r < 0.45:
            out += "\\" + ch
        else:
            out += ch
    return out


def url_text(rng):
    sch = rng.choice(SCHEMES)
    pre = rng.choice(["", "", "", " ", "\t", "&#9;", "&#10;", "&#x1;", "\x01", "%20", "&Tab;", "&NewLine;", " "])
    colon = rng.choice([":", ":", ":", "&colon;", "&#58;", "&#x3a;", "%3a", "\\:"])
    rest = rng.choice(["alert(1)", "//x.y/z", "a b", "é\"<>`", "x//data:image/png;", "%41%zz%", "//h/p?q=1#f", "", "x'y", "(a(b)c)",
                       "image/png;alert(1)", "image/gif;base64,x", "IMAGE/webp;x", "image/jpeg;", "text/html,x",
                       # authority forms: bracketed (IPv6-style) hosts, userinfo, ports - with characters that must end up encoded
                       "//[::\u00e9]/", "//[:\x0b:]", "//[fe80::1\u3000x]/p", "//[::1]:80/\u00e9", "//u\u00e9:p@h\u00f6st:8/\u00e4?\u00fc#\u00df",
                       "//[v1.a\"b]/", "//h\\x/[y]"])
    # blanks / controls that can only arrive through a character reference, at the very end of the destination
    post = rng.choice(["", "", "", "&#10;", "&#x0A;", "&NewLine;", "&#9;", "&Tab;", "&#13;", "&#32;", "&#xA0;", "&#12;", "&#x85;", "&#x2028;"])
    if rng.random() < 0.2:
        # a plain path / word, no scheme at all
        return pre + rng.choice(["foo", "/img.png", "/target", "a/b?c=d&e=f", "x.y/z#frag", "(p)", "~u/$v,w"]) + post
    return pre + spell_scheme(rng, sch) + colon + rest + post


EMAIL_LOCAL = list("abcxyz019") + list(".!#$%&'*+/=?^_`{|}~-")


def email_doc(rng):
    """an e-mail autolink whose local part runs over everything the autolink rule's pattern admits (several of those characters are
    not URL-safe and must arrive percent-encoded in the href), alone or inside a container / next to other inline text"""
    local = "".join(rng.choice(EMAIL_LOCAL) for _ in range(rng.randrange(1, 9)))
    dom = rng.choice(["example.com", "x.y", "a-b.c-d.ef", "h"])
    a = f"<{local}@{dom}>"
    return rng.choice([a, f"see {a} zqMARKERqz", f"> {a}", f"- *{a}*", f"# {a}", f"| {a} |\n|---|", f"[{a}](/u)"]) + "\n", a


def producer_doc(rng):
    if rng.random() < 0.12:
        return email_doc(rng)
    u = url_text(rng)
    mark = "zqMARKERqz"
    forms = [
        f"[{mark}]({u})", f"[{mark}](<{u}>)", f"![{mark}]({u})", f"<{u.replace(' ', '')}>", f"[{mark}]({u} \"t\")",
        f"[{mark}][r]\n\n[r]: {u}\n", f"![{mark}][r]\n\n[r]: <{u}> 't'\n", f"[r]: {u}\n\n[r] {mark}\n",
        f"> [{mark}]({u})\n", f"- ![{mark}]({u})\n", f"| [{mark}]({u}) |\n|---|\n", f"# [{mark}]({u})\n",
        f"<a href=\"{u}\">{mark}</a>", f"<{u.replace(' ', '')}@x.y>",
        # the marker inside the destination: accepted -> it is in the href; rejected -> it must stay as text
        f"[r]: {u.replace(' ', '')}{mark}\n\n[r]\n", f"[r]: <{u}{mark}> \"t\"\n\n[r]\n", f"[t]({u.replace(' ', '')}{mark})",
        f"![t]({u.replace(' ', '')}{mark} 't')", f"<{u.replace(' ', '')}{mark}>",
    ]
    return rng.choice(forms) + "\n", u


class Attrs(HTMLParser):
    def __init__(self):
        super().__init__(convert_charrefs=True)
        self.urls = []

    def handle_starttag(self, tag, attrs):
        for k, v in attrs:
            if k in ("href", "src") and v is not None:
                self.urls.append((tag, k, v))


def browser_scheme(u: str) -> str:
    u = u.strip("".join(map(chr, range(0, 33))))
    u = u.replace("\t", "").replace("\n", "").replace("\r", "")
    m = re.match(r"^([A-Za-z][A-Za-z0-9+.\-]*):", u)
    return m.group(1).lower() if m else ""


def url_problem(u: str):
    if not URL_OK.match(u):
        return "not URL-safe ASCII"
    s = browser_scheme(u)
    if s in ("javascript", "vbscript", "file"):
        return "dangerous scheme " + s
    if s == "data" and not re.match(r"^data:image/(gif|png|jpeg|webp);", u.strip().lower()):
        return "data: scheme other than the whitelisted images"
    return None


def token_urls(tokens):
    for t in tokens:
        if t.type in ("link_open", "image"):
            for k in ("href", "src"):
                if k in t.attrs:
                    yield t.type, k, t.attrs[k]
        if t.children:
            yield from token_urls(t.children)


def direct_property(cfg, src, parser_made_only=True):
    md = configs.make_md(cfg)
    if not supported(md):
        return None
    try:
        env = {}
        ts = guarded(md.parse, src, env)
        out = md.renderer.render(ts, md.options, env)
    except Exception:  # noqa: BLE001
        return None
    for ty, k, u in token_urls(ts):
        p = url_problem(str(u))
        if p:
            return {"where": f"{ty}.{k} on token", "url": u, "problem": p}
    if not md.options.get("html"):
        pa = Attrs()
        pa.feed(out)
        for tag, k, u in pa.urls:
            p = url_problem(u)
            if p:
                return {"where": f"{k} of <{tag}> in HTML", "url": u, "problem": p, "html": out[:400]}
    # rejected constructs stay as literal text: the marker never disappears
    # (not when a small maxNesting cuts content off by design)
    in_env = any("zqMARKERqz" in str(v.get("href", "")) for v in env.get("references", {}).values())
    if "zqMARKERqz" in src and "zqMARKERqz" not in out and not in_env and md.options.get("maxNesting", 100) >= 10:
        return {"where": "output", "problem": "a construct with a rejected destination was dropped instead of left as text",
                "html": out[:400]}
    return None


def run(ctx) -> int:
    rep: Reporter = ctx["rep"]
    tier, seed, proofs = ctx["tier"], ctx["seed"], ctx["proofs"]
    rng = rng_for("C05", seed)
    import mdurl
    from markdown_it.common.normalize_url import normalizeLink, validateLink

    # function level
    n = 1500 if tier == "quick" else 40000
    strs = []
    for k in range(n):
        r = rng.random()
        if r < 0.4:
            s = url_text(rng)
        elif r < 0.7:
            s = "".join(rng.choice("abAB09%%%:/?#&=+;,-_.!~*'() \"<>\\`éß中𝒳\x00\x7f\t\n") for _ in range(rng.randrange(0, 14)))
        else:
            s = docs.inline_text(rng)
        strs.append(s)
    lines = [sx([27, [6, s]]) for s in strs]
    # validateLink on what normalizeLink produces and on raw spellings
    vstrs = []
    for s in strs:
        try:
            vstrs.append(normalizeLink(s))
        except Exception:  # noqa: BLE001
            vstrs.append(s.encode("ascii", "ignore").decode())
    vstrs += [rng.choice([" ", "\t", "", "\n"]) + rng.choice(SCHEMES) + ":" + rng.choice(["x", "image/png;", "IMAGE/GIF;x"]) for _ in range(200)]
    vstrs = [v for v in vstrs if v.isascii()]
    vlines = [sx([27, [7, v]]) for v in vstrs]
    out = run_model(lines + vlines)
    disagreements = []
    for s, o in zip(strs, out[:len(lines)]):
        try:
            e = mdurl.encode(s)
        except Exception as ex:  # noqa: BLE001
            e = None
        if e is not None and tok.s_of(unsx(o) or []) != e:
            disagreements.append({"mdurl.encode": s, "implementation": e, "model": tok.s_of(unsx(o) or [])})
    for v, o in zip(vstrs, out[len(lines):]):
        m = unsx(o)
        e = validateLink(v)
        if not m or bool(m[0]) != e or bool(m[1]) != e:
            disagreements.append({"validateLink": v, "implementation": e, "model": m})
    kn, kbad = run_kernel(list(zip(lines + vlines, out))[:: max(1, len(out) // 40)], "c05")

    n_dir = 0

    def probe(r, count):
        nonlocal n_dir
        for cd in docs.corner_docs():        # the hand-made corner documents first
            for ci in (1, 2, 4):
                n_dir += 1
                d = direct_property(configs.STANDARD[ci], cd)
                if d:
                    return {"config": configs.STANDARD[ci], "src": cd, **d}
        for k in range(count):
            cfg = configs.STANDARD[k % len(configs.STANDARD)] if k % 2 else configs.random_config(r)
            src, u = producer_doc(r)
            if k % 5 == 0:
                src = src + docs.random_doc(r)
            n_dir += 1
            d = direct_property(cfg, src)
            if d:
                return {"config": cfg, "src": src, **d}
        return None
    direct = probe(rng, 1500 if tier == "quick" else 60000)
    conclude(rep, proofs, direct, "unsafe-url", disagreements, kbad,
             lambda: probe(rng_for("C05", seed, "search"), 6000 if tier == "quick" else 150000),
             "mdurl.encode / validateLink: model and implementation differ")
    cov = proof_cov("C05", proofs, [
        "mdurl.parse/format and _punycode are opaque (an arbitrary function in the theorems)",
        "validateLink lower-cases with str.lower(); the model lower-cases ASCII only, exact on the encoded (ASCII) strings the producers pass",
        "that each producer (link, image, autolink, reference) emits normalizeLink(x) only after validateLink, and backs off to text, is decided on the implementation in this run (producer theorems belong to the inline model)",
        "linkify producers cannot be exercised: linkify-it-py is not installed in this sandbox"])
    cov.update({
        "evaluations": len(lines) + len(vlines) + n_dir, "distinct_nontrivial": len(set(lines)) + len(set(vlines)) + n_dir,
        "rule": "function level: scheme spellings (mixed case, entity-, percent- and backslash-encoded characters, control/space prefixes, encoded colons), random URL-alphabet strings with %, non-ASCII and non-BMP characters, inline fragments through mdurl.encode; normalizeLink outputs and raw spellings through validateLink (direct and regex forms); pipeline: 14 producer forms (inline link, <dest>, image, autolink, e-mail autolink, reference link/image, definitions, inside quote/list/table/heading, raw <a>) x spellings x standard/random configurations (html on and off), hrefs/srcs read from tokens and re-parsed from HTML",
        "samples": [{"url": strs[0]}, {"doc": producer_doc(rng_for('C05', seed, 's'))[0]}],
        "traces_validated_against_impl": len(lines) + len(vlines), "pipeline_documents": n_dir,
        "in_kernel_cases": kn, "in_kernel_mismatches": len(kbad), "disagreements": len(disagreements),
    })
    return rep.finish("proof", cov, ["surrogate code points excluded (as C01 does)"])


def replay(body) -> int:
    if "config" in body and "src" in body:
        d = direct_property(body["config"], body["src"])
        print("C05 on implementation:", "VIOLATED " + json.dumps(d, default=str)[:1500] if d else "holds")
        return 1 if d else 0
    print(json.dumps(body, default=str)[:1500])
    return 0
