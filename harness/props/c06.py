"""C06 — CommonMark container laws: quoting or list-indenting a document nests its blocks.
Proof: Props/C06.v (row level: the row the quote rule writes for '> ' + line equals the row the
scanner computes for the line, shifted by two).  Correspondence (binding): whole-pipeline model
vs implementation on the wrapped documents.  Property on the implementation: for generated
tab-free documents D and repeated wraps, parse(quote(D)) = one block quote around parse(D)
(levels +1, same maps, content, env) and parse(item(D)) = one-item list around parse(D)
(levels +2, modulo hidden, leading blanks on lazy continuation lines, thematic-break precedence)."""
from __future__ import annotations

import json
import re

from common import Reporter, conclude, guarded, proof_cov, rng_for
import configs
import docs
import pipecheck

MARKERS = ["-", "*", "+", "1.", "7)", "12.", "0.", "123456789)"]
HR_LINE = re.compile(r"^ {0,3}([-*_])( *\1){2,} *$")

CM = {"preset": "commonmark", "options": {}, "enable": [], "disable": [], "ruler2_off": []}
CFGS = [CM,
        {"preset": "commonmark", "options": {"html": False}, "enable": [], "disable": [], "ruler2_off": []},
        {"preset": "commonmark", "options": {"inline_definitions": True}, "enable": [], "disable": [], "ruler2_off": []}]
Q_CFGS = CFGS + [{"preset": "js-default", "options": {"linkify": False}, "enable": [], "disable": [], "ruler2_off": []}]


def clean(src):
    src = src.replace("\t", "  ").replace("\r", "").replace("\x00", "?")
    if not src.endswith("\n"):
        src += "\n"
    return src


def quote(d):
    return "".join("> " + ln + "\n" for ln in d[:-1].split("\n"))


def item(d, marker, spaces):
    w = len(marker) + spaces
    lines = d[:-1].split("\n")
    return "".join((marker + " " * spaces + ln if i == 0 else " " * w + ln) + "\n" for i, ln in enumerate(lines))


def norm_inline(s):
    return "\n".join(ln.lstrip(" ") for ln in s.split("\n"))


def norm_env(env):
    """item law: a title continued on a lazy line keeps that line's leading blanks (the tolerance the property names)"""
    def rec(v):
        return {**v, "title": norm_inline(v["title"])}
    return {"references": {k: rec(v) for k, v in (env.get("references") or {}).items()},
            "duplicate_refs": [rec(v) for v in env.get("duplicate_refs") or []]}


def norm_titles(children):
    """a link/image title taken from a definition whose title continues on a lazy line carries that line's leading blanks"""
    out = []
    for c in children or []:
        c = dict(c)
        if c.get("attrs"):
            c["attrs"] = [[k, norm_inline(v) if k == "title" and isinstance(v, str) else v] for k, v in
                          (c["attrs"].items() if isinstance(c["attrs"], dict) else c["attrs"])]
        if c.get("children"):
            c["children"] = norm_titles(c["children"])
        out.append(c)
    return out


def lvl(ds, k):
    out = []
    for d in ds:
        d = dict(d)
        d["level"] += k
        out.append(d)
    return out


def same_block(a, b, loose):
    """a: expected (from D), b: actual (inside the container).  loose = item law tolerances."""
    if len(a) != len(b):
        return f"{len(a)} inner tokens expected, {len(b)} found"
    for x, y in zip(a, b):
        x, y = dict(x), dict(y)
        if loose:
            x.pop("hidden", None)
            y.pop("hidden", None)
            if x["type"] == "inline" and x["content"] != y["content"] and norm_inline(x["content"]) == norm_inline(y["content"]):
                for k in ("content", "children"):
                    x.pop(k, None)
                    y.pop(k, None)
            if x["type"] == "inline" and x.get("children") != y.get("children"):
                x["children"], y["children"] = norm_titles(x.get("children")), norm_titles(y.get("children"))
            if x["type"] == "definition" and x.get("meta") and y.get("meta"):
                # the raw label of a definition (kept in meta under inline_definitions) and its title may continue on a lazy line
                x["meta"] = {**x["meta"], "title": norm_inline(x["meta"].get("title", "")), "label": norm_inline(x["meta"].get("label", ""))}
                y["meta"] = {**y["meta"], "title": norm_inline(y["meta"].get("title", "")), "label": norm_inline(y["meta"].get("label", ""))}
        if x != y:
            diff = [k for k in x if x.get(k) != y.get(k)]
            return f"token {x['type']} (map {x.get('map')}) differs in {diff}: expected {[x.get(k) for k in diff]!r:.300} got {[y.get(k) for k in diff]!r:.300}"
    return None


def dumps(md, src):
    env = {}
    ts = guarded(md.parse, src, env)
    return [t.as_dict() for t in ts], env


def deep(ds):
    m = 0
    for d in ds:
        m = max(m, d["level"])
    return m


def law_quote(md, d):
    try:
        inner, env0 = dumps(md, d)
        outer, env1 = dumps(md, quote(d))
    except Exception as e:  # noqa: BLE001
        return {"what": "raised " + type(e).__name__}
    if deep(inner) + 4 >= md.options["maxNesting"]:
        return None
    n = d.count("\n")
    if not outer or outer[0]["type"] != "blockquote_open" or outer[-1]["type"] != "blockquote_close" or outer[0]["level"] != 0 or outer[-1]["level"] != 0:
        return {"what": "quoted document is not one block quote", "outer": [t["type"] for t in outer][:12]}
    if [t for t in outer[1:-1] if t["level"] == 0]:
        return {"what": "quoted document is more than one top-level block", "outer": [t["type"] for t in outer if t["level"] == 0][:12]}
    if outer[0]["map"] != [0, n]:
        return {"what": f"block quote map {outer[0]['map']} != [0, {n}]"}
    r = same_block(lvl(inner, 1), outer[1:-1], False)
    if r:
        return {"what": "block quote contents differ from the blocks of D: " + r}
    if env0 != env1:
        return {"what": "reference definitions differ", "plain": str(env0)[:300], "quoted": str(env1)[:300]}
    return None


def law_item(md, d, marker, spaces):
    if not d or d[0] in " \n":
        return None
    w = item(d, marker, spaces)
    first = w.split("\n", 1)[0]
    if HR_LINE.match(first):
        return None
    try:
        inner, env0 = dumps(md, d)
        outer, env1 = dumps(md, w)
    except Exception as e:  # noqa: BLE001
        return {"what": "raised " + type(e).__name__}
    if deep(inner) + 5 >= md.options["maxNesting"]:
        return None
    kind = "bullet_list" if marker in "-*+" else "ordered_list"
    types = [t["type"] for t in outer]
    if len(outer) < 4 or types[0] != kind + "_open" or types[1] != "list_item_open" or types[-2] != "list_item_close" or types[-1] != kind + "_close":
        return {"what": "wrapped document is not a one-item list", "outer": types[:12]}
    if [t for t in outer[1:-1] if t["level"] == 0] or [t for t in outer[2:-2] if t["level"] <= 1]:
        return {"what": "wrapped document is more than one list item", "outer": [t["type"] for t in outer if t["level"] <= 1][:12]}
    r = same_block(lvl(inner, 2), outer[2:-2], True)
    if r:
        return {"what": "list item contents differ from the blocks of D: " + r}
    if norm_env(env0) != norm_env(env1):
        return {"what": "reference definitions differ", "plain": str(env0)[:300], "wrapped": str(env1)[:300]}
    return None


def gen_D(rng):
    r = rng.random()
    if r < 0.5:
        d = docs.random_doc(rng)
    elif r < 0.8:
        d = docs.grammar_doc(rng)
    else:
        d = rng.choice(LEAVES) + rng.choice(["", "\n", "after\n", "\nafter\n"]) + rng.choice(["", rng.choice(LEAVES)])
    return clean(d)


LEAVES = ["```\nfirst\n\nsecond\n```\n", "<pre>\nfirst\n\nsecond\n</pre>\n", "<div>\nfoo\n\nbar\n", "<div>\n\n*emphasis*\n\n</div>\n",
          "    code\n\n    more\n", "para\nlazy\n", "# h\n", "title\n===\n", "[r]: /u\n 'multi\n line'\n\n[r]\n", "- a\n\n  b\n- c\n",
          "1. x\n   - y\n", "> q\nlazy\n", "~~~ info\n  indented\n~~~\n", "***\n", "<!-- c\n\nd -->\n", "a  \nb\\\nc\n", "<a href=\"x\">\n*y*\n",
          "```\nunclosed\n\n", "* * *\n", "- - -\nx\n", "+\n", "1.\n", "-\n  x\n",
          # tables (quote law under the table configuration), incl. rows with empty cells at the pipes
          "|a|b|\n|-|-|\n|c|d|\n", "||a|\n|-|-|\n|1|2|\n", "|a|b|\n|-|-|\n||2|\n|3||\n", "| h |\n|:-:|\n|| x ||\n", "a|b\n-|-\n|\nc\n"]


def wrap_random(rng, d, steps):
    ops = []
    for _ in range(steps):
        if rng.random() < 0.5 or not d or d[0] in " \n":
            d = quote(d)
            ops.append(">")
        else:
            m, sp = rng.choice(MARKERS), rng.randrange(1, 5)
            if HR_LINE.match(item(d, m, sp).split("\n", 1)[0]):
                continue
            d = item(d, m, sp)
            ops.append(m + " " * sp)
    return d, ops


def nest_shape(cs, lv, hid):
    """(type, level, hidden, map, markup, info, attrs) of the tokens C06_containers_within_containers states (wrapc);
    cs: list of "Q", (bullet, spaces) or (digits, delimiter, spaces)"""
    if not cs:
        return [("paragraph_open", lv, hid, (0, 1), "", "", {}), ("inline", lv + 1, False, (0, 1), "", "", {}),
                ("paragraph_close", lv, hid, None, "", "", {})]
    c, r = cs[0], cs[1:]
    if c == "Q":
        return ([("blockquote_open", lv, False, (0, 1), ">", "", {})] + nest_shape(r, lv + 1, False)
                + [("blockquote_close", lv, False, None, ">", "", {})])
    if len(c) == 2:
        m = c[0]
        return ([("bullet_list_open", lv, False, (0, 1), m, "", {}), ("list_item_open", lv + 1, False, (0, 1), m, "", {})]
                + nest_shape(r, lv + 2, True) + [("list_item_close", lv + 1, False, None, m, "", {}), ("bullet_list_close", lv, False, None, m, "", {})])
    ds, dl = c[0], c[1]
    attrs = {} if int(ds) == 1 else {"start": int(ds)}
    return ([("ordered_list_open", lv, False, (0, 1), dl, "", attrs), ("list_item_open", lv + 1, False, (0, 1), dl, ds, {})]
            + nest_shape(r, lv + 2, True) + [("list_item_close", lv + 1, False, None, dl, "", {}), ("ordered_list_close", lv, False, None, dl, "", {})])


def nest_prefix(cs):
    return "".join("> " if c == "Q" else (c[0] + " " * c[1] if len(c) == 2 else c[0] + c[1] + " " * c[2]) for c in cs)


def nest_got(md, d):
    return [(t.type, t.level, t.hidden, t.map if t.map is None else tuple(t.map), t.markup, t.info, dict(t.attrs)) for t in md.parse(d)]


def run(ctx) -> int:
    rep: Reporter = ctx["rep"]
    tier, seed, proofs = ctx["tier"], ctx["seed"], ctx["proofs"]
    rng = rng_for("C06", seed)
    q = tier == "quick"
    mds = [(c, configs.make_md(c)) for c in Q_CFGS]

    cases = []
    for k in range(400 if q else 8000):
        d, _ = wrap_random(rng, gen_D(rng), rng.randrange(1, 4))
        cases.append((Q_CFGS[k % len(Q_CFGS)], "parse", d, None))
    # the class of C06_containers_within_containers: every list of "> " / "- " markers up to depth 4 in front of a line
    # (model and implementation compared on exactly the documents the theorem speaks about; the token shape the theorem
    # states is also checked on the implementation directly)
    import itertools
    nest_bad = None
    ctrs = (["Q"] + [(m, k) for m in "-*+" for k in (1, 2, 3, 4)]
            + [(ds, dl, k) for ds in ("1", "2", "007", "10", "999999999", "0") for dl in ".)" for k in (1, 4)])
    nrng = rng_for("C06", seed, "nest")
    families = [cs for depth in range(0, 3) for cs in itertools.product(ctrs, repeat=depth)]          # all lists up to depth 2
    families += [tuple(nrng.choice(ctrs) for _ in range(nrng.randrange(3, 7))) for _ in range(60 if q else 3000)]  # deeper, sampled
    for idx, cs in enumerate(families):
        line = ("foo *b*", "a \\< [l](/u) `c`")[idx % 2]
        d = nest_prefix(cs) + line + "\n"
        if idx % 3 == 0 or len(cs) <= 1:
            cases.append((Q_CFGS[0], "parse", d, None))
        if nest_bad is None:
            got = nest_got(mds[0][1], d)
            if got != nest_shape(list(cs), 0, False):
                nest_bad = {"config": Q_CFGS[0], "law": "containers-within-containers", "D": line + "\n", "containers": [str(c) for c in cs],
                            "tokens": [list(map(str, g)) for g in got]}
    n_run, disagreements, kn, kbad, lines = pipecheck.correspond(cases, "c06")
    count = {"quote": 0, "item": 0, "skipped_hr": 0}

    def probe(r, n):
        for k in range(n):
            base = gen_D(r)
            d, ops = wrap_random(r, base, r.randrange(0, 4))
            if len(ops) > 5:
                continue
            cfg, md = mds[k % len(mds)]
            count["quote"] += 1
            v = law_quote(md, d)
            if v:
                return {"config": cfg, "law": "quote", "D": d, "wraps_already_applied": ops, **v}
            cfg, md = mds[k % 3]       # item law: commonmark rules (table excluded)
            m, sp = r.choice(MARKERS), r.randrange(1, 5)
            if d and d[0] not in " \n":
                if HR_LINE.match(item(d, m, sp).split("\n", 1)[0]):
                    count["skipped_hr"] += 1
                    continue
                count["item"] += 1
                v = law_item(md, d, m, sp)
                if v:
                    return {"config": cfg, "law": "item", "D": d, "marker": m, "spaces": sp, "wraps_already_applied": ops, **v}
        return None
    def fixed():
        # fixed corpus, walked first: every leaf alone, followed by text, and inside a quote that ends on a blank
        # quote line before more text - under every marker and every marker width
        ds = []
        for lf in LEAVES[:23]:
            ds += [lf, lf + "after\n", lf + "\nafter\n", quote(lf) + ">\n\nmore\n"]
        ds += [">     code\n>\n\nmore\n", "Foo\nbar\n===\n", "> Foo\n> bar\n> ---\nbaz\n", ">     code\n>\n>\n\n\nmore\n"]
        # a definition-like line directly followed by a block start (terminator rules inside an item whose content
        # column is 4 or more), and lazy lines after a quote that matter only as lazy lines
        ds += ["[bar]:\n***\n", "[bar]:\n```\nx\n```\n", "[bar]:\n<div>\n", "[bar]:\n# h\n", "[bar]:\n> q\n", "[bar]: /u\n***\n",
               "[bar]:\n/u\n***\n", "> a\n===\n", "> ```\nfoo\n", "> a\n---\n", "> - a\nb\n===\n"]
        ds += docs.corner_docs()        # the hand-made corner documents as D
        for d in ds:
            d = clean(d)
            cfg, md = mds[0]
            count["quote"] += 1
            v = law_quote(md, d)
            if v:
                return {"config": cfg, "law": "quote", "D": d, "wraps_already_applied": [], **v}
            if not d or d[0] in " \n":
                continue
            for m in MARKERS:
                for sp in (1, 2, 3, 4):
                    if HR_LINE.match(item(d, m, sp).split("\n", 1)[0]):
                        continue
                    count["item"] += 1
                    v = law_item(md, d, m, sp)
                    if v:
                        return {"config": cfg, "law": "item", "D": d, "marker": m, "spaces": sp, "wraps_already_applied": [], **v}
        return None
    direct = nest_bad or fixed() or probe(rng, 1500 if q else 60000)
    conclude(rep, proofs, direct, "container-law", disagreements, kbad,
             lambda: probe(rng_for("C06", seed, "search"), 6000 if q else 100000),
             "whole pipeline on wrapped documents: model and implementation differ")
    cov = proof_cov("C06", proofs, ["quote_law / item_law at document level are decided on the implementation in this run; proved: the row-level agreement of quote stripping and line scanning (partial)"])
    cov.update({
        "evaluations": n_run + count["quote"] + count["item"], "distinct_nontrivial": len(set(lines)) + count["quote"] + count["item"],
        "rule": "D: generated documents (seed corpus mutations, container x leaf grammar, leaves with interior blank lines: fences, html blocks of all kinds, indented code, multi-line definitions, lazy lines, loose/tight lists, empty items, hr look-alikes, tables with empty edge cells), tabs/CR/NUL removed, newline-terminated; 0-3 random wraps applied before the law (containers within containers), then quote law under commonmark / html off / inline_definitions / js-default(table), item law under the commonmark configurations with markers - * + 1. 7) 12. 0. 123456789) x 1-4 spaces; blank lines are prefixed / indented too; first lines that become a thematic break are skipped",
        "samples": [{"D": "```\na\n\nb\n```\n", "quote": quote("```\na\n\nb\n```\n"), "item": item("```\na\n\nb\n```\n", "1.", 2)}],
        "traces_validated_against_impl": n_run, "implementation_probes": count,
        "in_kernel_cases": kn, "in_kernel_mismatches": len(kbad), "disagreements": len(disagreements),
    })
    return rep.finish("proof", cov, ["nesting depth well below maxNesting; tab-free documents"])


def replay(body) -> int:
    md = configs.make_md(body["config"]) if "config" in body else None
    d = None
    if body.get("law") == "quote":
        d = law_quote(md, body["D"])
    elif body.get("law") == "item":
        d = law_item(md, body["D"], body["marker"], body["spaces"])
    elif body.get("law") == "containers-within-containers":
        import ast
        cs = [c if c == "Q" else ast.literal_eval(c) for c in body["containers"]]
        got = nest_got(md, nest_prefix(cs) + body["D"])
        d = None if got == nest_shape(cs, 0, False) else {"tokens": got, "stated": nest_shape(cs, 0, False)}
    print("C06 on implementation:", "VIOLATED " + json.dumps(d, default=str, ensure_ascii=False)[:1200] if d else "holds / not replayable")
    return 1 if d else 0
