"""C13 — concurrent or nested parses on a shared instance do not interfere.

Proof: Props/C13.v (any number of threads, any schedule: every getRules returns the
complete chain; the cache is never partial; the model's atomic actions are those of
the bytecode, regenerated each run).
Correspondence / search: real schedules on the real library, driven by sys.monitoring:
 (i)  pre-emption of call A at its k-th event (bytecode INSTRUCTION inside ruler.py,
      source LINE everywhere in markdown_it/), call B run to completion there — in a
      second real thread, or nested in the same thread;
 (ii) fine-grained schedules (A k1 steps, B k2 steps, A ..., optionally a third thread)
      with all threads gated by the monitoring callback;
 from freshly constructed and freshly reconfigured instances.  The model's prediction
 for every schedule is 'each call returns its solo result'; that is what is compared.
 The model itself is run on the ruler-level schedules (extracted + in-kernel)."""
from __future__ import annotations

import json
import sys
import threading
import types

from common import (Reporter, TRUSTED_COMMON, rng_for, run_kernel, run_model, sx, unsx)
import docs

mon = sys.monitoring
TOOL = mon.DEBUGGER_ID


def lib_code_objects(only_file=None):
    """all code objects of markdown_it (and mdurl: its caches are part of a parse)"""
    out = []
    seen = set()

    def walk(co):
        if id(co) in seen:
            return
        seen.add(id(co))
        out.append(co)
        for c in co.co_consts:
            if isinstance(c, types.CodeType):
                walk(c)

    for name, mod in list(sys.modules.items()):
        if not (name == "markdown_it" or name.startswith("markdown_it.") or name == "mdurl" or name.startswith("mdurl.")):
            continue
        for v in list(vars(mod).values()):
            fns = []
            if isinstance(v, types.FunctionType):
                fns.append(v)
            elif isinstance(v, type):
                for a in vars(v).values():
                    f = getattr(a, "__func__", a)
                    if isinstance(f, types.FunctionType):
                        fns.append(f)
                    if isinstance(a, property) and a.fget:
                        fns.append(a.fget)
            for f in fns:
                if f.__module__ and (f.__module__.startswith("markdown_it") or f.__module__.startswith("mdurl")):
                    walk(f.__code__)
    if only_file:
        out = [c for c in out if c.co_filename.endswith(only_file)]
    return out


class Controller:
    """Runs several calls in real threads under an explicit schedule.  schedule = list of
    (thread index, number of events) ; a thread whose quota is used up hands over to the
    next entry; finished threads are skipped; when the schedule is exhausted the remaining
    threads run to completion one after the other."""

    def __init__(self, jobs, schedule, granularity, scope_codes, limit=20.0):
        self.jobs = jobs
        self.schedule = list(schedule)
        self.idx = 0
        self.remaining = self.schedule[0][1] if self.schedule else 0
        self.current = self.schedule[0][0] if self.schedule else 0
        self.done = [False] * len(jobs)
        self.results = [None] * len(jobs)
        self.cond = threading.Condition()
        self.gran = granularity
        self.codes = scope_codes
        self.tids = {}
        self.limit = limit
        self.events = [0] * len(jobs)
        self.where = None

    def _advance(self):
        # called with cond held
        while True:
            self.idx += 1
            if self.idx < len(self.schedule):
                t, n = self.schedule[self.idx]
                if not self.done[t]:
                    self.current, self.remaining = t, n
                    break
            else:
                live = [i for i, d in enumerate(self.done) if not d]
                self.current = live[0] if live else -1
                self.remaining = 1 << 60
                break
        self.cond.notify_all()

    def _callback(self, code, offset_or_line):
        me = self.tids.get(threading.get_ident())
        if me is None:
            return None
        with self.cond:
            self.events[me] += 1
            if self.current == me:
                self.remaining -= 1
                if self.remaining <= 0:
                    if self.where is None:
                        self.where = (code.co_filename.split("/")[-1], code.co_name, offset_or_line)
                    self._advance()
            while self.current != me and self.current != -1:
                if not self.cond.wait(self.limit):
                    raise TimeoutError("schedule controller: thread waited too long")
        return None

    def _thread(self, i):
        self.tids[threading.get_ident()] = i
        with self.cond:
            while self.current != i and self.current != -1:
                if not self.cond.wait(self.limit):
                    self.results[i] = ["exc", "TimeoutError(start)"]
                    self.done[i] = True
                    return
        try:
            self.results[i] = ["ok", self.jobs[i]()]
        except BaseException as e:  # noqa: BLE001
            self.results[i] = ["exc", type(e).__name__]
        with self.cond:
            self.done[i] = True
            if self.current == i:
                self.idx -= 0
                self._advance()

    def run(self):
        ev = mon.events.INSTRUCTION if self.gran == "instruction" else mon.events.LINE
        mon.use_tool_id(TOOL, "verif-c13")
        try:
            mon.register_callback(TOOL, ev, self._callback)
            for c in self.codes:
                mon.set_local_events(TOOL, c, ev)
            ths = [threading.Thread(target=self._thread, args=(i,), daemon=True) for i in range(len(self.jobs))]
            for t in ths:
                t.start()
            for t in ths:
                t.join(self.limit)
            hung = [i for i, t in enumerate(ths) if t.is_alive()]
            for i in hung:
                self.results[i] = ["hang"]
            with self.cond:
                self.current = -1
                self.cond.notify_all()
        finally:
            for c in self.codes:
                mon.set_local_events(TOOL, c, 0)
            mon.register_callback(TOOL, ev, None)
            mon.free_tool_id(TOOL)
        return self.results


def nested_run(make_md, doc_a, doc_b, k, granularity, codes, limit=10.0):
    """same thread: at the k-th event of A, B runs to completion (re-entrant call)"""
    import signal

    md = make_md()
    state = {"n": 0, "inner": False, "b": None, "where": None}
    ev = mon.events.INSTRUCTION if granularity == "instruction" else mon.events.LINE

    def cb(code, x):
        if state["inner"]:
            return None
        state["n"] += 1
        if state["n"] == k:
            state["inner"] = True
            state["where"] = (code.co_filename.split("/")[-1], code.co_name, x)
            try:
                state["b"] = ["ok", md.render(doc_b)]
            except BaseException as e:  # noqa: BLE001
                state["b"] = ["exc", type(e).__name__]
            state["inner"] = False
        return None

    def alarm(*_):
        raise TimeoutError("hang")
    old = signal.signal(signal.SIGALRM, alarm)
    signal.setitimer(signal.ITIMER_REAL, limit)
    mon.use_tool_id(TOOL, "verif-c13")
    try:
        mon.register_callback(TOOL, ev, cb)
        for c in codes:
            mon.set_local_events(TOOL, c, ev)
        try:
            a = ["ok", md.render(doc_a)]
        except TimeoutError:
            a = ["hang"]
            if state["inner"]:
                state["b"] = ["hang"]
        except BaseException as e:  # noqa: BLE001
            a = ["exc", type(e).__name__]
    finally:
        signal.setitimer(signal.ITIMER_REAL, 0)
        signal.signal(signal.SIGALRM, old)
        for c in codes:
            mon.set_local_events(TOOL, c, 0)
        mon.register_callback(TOOL, ev, None)
        mon.free_tool_id(TOOL)
    return a, state["b"], state["n"], state["where"]


def global_touching_codes(codes):
    """the library functions that rebind a module-level variable at run time, or read one that some library function rebinds:
    state shared by every parse in the process, so EVERY execution of their lines is a place where another parse can get in
    between a read and the matching write (not only the first execution)"""
    import dis
    rebound = {}
    for c in codes:
        for ins in dis.get_instructions(c):
            if ins.opname in ("STORE_GLOBAL", "DELETE_GLOBAL"):
                rebound.setdefault(c.co_filename, set()).add(ins.argval)
    out = set()
    mods = {getattr(m, "__file__", None): m for m in list(sys.modules.values()) if m is not None}
    mutators = {"append", "add", "clear", "pop", "update", "setdefault", "insert", "extend", "remove", "discard", "popitem", "appendleft"}
    for c in codes:
        names = rebound.get(c.co_filename, ())
        mod = mods.get(c.co_filename)
        ins_list = list(dis.get_instructions(c))
        writes = any(i.opname in ("STORE_SUBSCR", "DELETE_SUBSCR") or (i.opname in ("LOAD_ATTR", "LOAD_METHOD") and i.argval in mutators)
                     for i in ins_list)
        for ins in ins_list:
            if ins.opname in ("STORE_GLOBAL", "DELETE_GLOBAL") or (ins.opname in ("LOAD_GLOBAL", "LOAD_NAME") and ins.argval in names):
                out.add(c)
                break
            # a module-level container (dict / list / set memo) that this function may write into
            if writes and ins.opname in ("LOAD_GLOBAL", "LOAD_NAME") and mod is not None \
                    and isinstance(getattr(mod, str(ins.argval), None), (dict, list, set, bytearray)):
                out.add(c)
                break
    return out


def first_occurrences(make_md, doc, codes, every_in=(), per_line=25):
    """event indices (LINE granularity, as the Controller counts them) at which each source line of the library is
    executed for the first time during the first use of a fresh instance: pre-empting there lands inside every
    lazy initialisation exactly when it happens; for the code objects in [every_in], every execution of a line (up to
    [per_line] of them)"""
    md = make_md()
    seen, firsts, n = {}, [], [0]

    def cb(code, line):
        n[0] += 1
        key = (code, line)
        c = seen.get(key, 0)
        if c == 0 or (code in every_in and c < per_line):
            firsts.append(n[0])
        seen[key] = c + 1
        return None
    mon.use_tool_id(TOOL, "verif-c13")
    try:
        mon.register_callback(TOOL, mon.events.LINE, cb)
        for c in codes:
            mon.set_local_events(TOOL, c, mon.events.LINE)
        try:
            md.render(doc)
        except BaseException:  # noqa: BLE001
            pass
    finally:
        for c in codes:
            mon.set_local_events(TOOL, c, 0)
        mon.register_callback(TOOL, mon.events.LINE, None)
        mon.free_tool_id(TOOL)
    return firsts


def count_events(make_md, doc, granularity, codes):
    _, _, n, _ = nested_run(make_md, doc, "", 0, granularity, codes)
    return n


# ---------------------------------------------------------------- instances and documents

def mk_fresh(preset="commonmark", opts=None, enable=()):
    def f():
        from markdown_it import MarkdownIt
        md = MarkdownIt(preset, opts or {})
        if enable:
            md.enable(list(enable))
        return md
    return f


def mk_reconfigured():
    from markdown_it import MarkdownIt
    md = MarkdownIt("commonmark")
    md.render("warm *up* [a](b)\n")
    md.enable(["table", "strikethrough"])   # invalidates the caches
    return md


DOC_A = "intro *e*\n\n* item\n  > q\n\n[x](http://a.example/é%20?q=1 \"T\") ![p](/i.png)\n\n[r]: /ref-a\n\n[r]\n"
DOC_B = "some text\n# Title\nmore text\n> quote\n\n1. one\n- dash\n\n[beta](http://b.example/two/longer/path) `c` **s**\n\n[r]: /ref-b 'tb'\n\n[r] <http://b.c/é%20?q=1>\n"
DOC_C = "| a | b |\n|---|---|\n| 1 | ~~2~~ |\n\n```py\nx\n```\n"
# every construct whose recognition depends on a per-instance switch read at parse time (code, html, table, fence, ...):
# anything computed lazily on first use and kept on a shared object shows when the first call is pre-empted early
DOC_F = "# Title\n\nsome *text* with `code` here\n"
DOC_G = ("intro\n\n    indented code\n    more code\n\n> quote\n>\n>     quoted code\n\n<div>\nhtml\n</div>\n\n| t |\n|---|\n| c |\n\n"
         "~~~\nfence\n~~~\n\n1. a\n   - b\n\nsetext\n===\n\n***\n\n[r]: /u\n\n[r] <b>x</b> &amp; ~~s~~ \"q\" end\n")
# state of the inline parser that must be per call: backtick closer cache, skipToken memo, delimiter lists, link title result
# per-call recursion guards: nested labels whose depths stay below maxNesting alone (20 under commonmark, 100 under
# js-default) but not when two calls' depths are added up
DOC_H = "see " + "[" * 14 + "alpha" + "]" * 14 + "(/a) for details\n"
DOC_I = "and " + "[" * 12 + "beta" + "]" * 12 + "(/b) as well\n"
DOC_J = "see " + "[" * 60 + "alpha" + "]" * 60 + "(/a) for details\n"
DOC_K = "and " + "![" * 25 + "beta" + "]" * 25 + "(/b) as well\n"
DOC_D = "Write `` in prose, then run `make` and `make test` to check [x](/u 't1') *a* [[n]](/v).\n"
DOC_E = "A stray `` and a lone ` here ![i](/s \"t2\") **b** [[[m]]](/w 'tw').\n"


# a pair whose two documents both go through every place where a per-instance or per-process object is read and written while
# rendering: fences with (different) info strings, reference definitions and uses with different labels and one label that both
# define differently, images, titles, autolinks, entities, typographic input
DOC_M = ("[alpha]: /a-target\n\nsee [alpha] and ![img][alpha] -- \"q\"\n\n```python\nprint(1)\n```\n\n~~~ruby x\ny\n~~~\n\n"
         "<http://m.example/x> &amp; [t](/m 'tm')\n")
DOC_N = ("[alpha]: /b-alpha\n[beta]: /b-target 'T'\n\nsee [beta] and [alpha] ... 'r'\n\n```ruby\nputs 1\n```\n\n"
         "<mailto:n@example.org> &lt; ![j](/n \"tn\")\n")


def solo(make_md, doc):
    try:
        return ["ok", make_md().render(doc)]
    except BaseException as e:  # noqa: BLE001
        return ["exc", type(e).__name__]


def is_known_mdurl(where, known):
    if not where or not known:
        return False
    return where[0] in ("_encode.py", "_decode.py") and where[1] in ("get_encode_cache", "get_decode_cache")


# ---------------------------------------------------------------- model schedules

def model_schedule_cases(rng, n):
    cases = []
    for _ in range(n):
        nrules = rng.randrange(1, 5)
        rules = [[[97 + i], rng.random() < 0.8, i + 1, rng.sample([[112], [113]], rng.randrange(0, 3))] for i in range(nrules)]
        nth = rng.randrange(1, 4)
        programs = [[rng.choice([[], [112], [113], [122]]) for _ in range(rng.randrange(1, 3))] for _ in range(nth)]
        sched = [rng.randrange(nth) for _ in range(rng.randrange(0, 30))]
        # completion suffix: everyone gets enough steps
        sched += [t for t in range(nth) for _ in range(12)]
        cases.append((rules, programs, sched))
    return cases


def spec_chain(rules, chain):
    return [fn for (name, en, fn, alt) in rules if en and (not chain or chain in alt)]


# ---------------------------------------------------------------- the check

def run(ctx) -> int:
    rep: Reporter = ctx["rep"]
    tier, seed, proofs = ctx["tier"], ctx["seed"], ctx["proofs"]
    rng = rng_for("C13", seed)
    import markdown_it  # noqa: F401
    from markdown_it import MarkdownIt
    MarkdownIt()  # import everything

    violations = []
    known_hits = 0
    n_sched = 0
    samples = []

    ruler_codes = lib_code_objects("ruler.py")
    all_codes = lib_code_objects()
    global_codes = global_touching_codes(all_codes)

    def check(a, b, sa, sb, desc, where):
        nonlocal known_hits
        bad = []
        if a is not None and a != sa:
            bad.append(("A", a, sa))
        if b is not None and b != sb:
            bad.append(("B", b, sb))
        if bad:
            violations.append({**desc, "preempted_at": where,
                               "wrong": [{"call": w, "got": g, "solo": s} for w, g, s in bad]})

    makers = [("fresh commonmark", mk_fresh()), ("fresh js-default+ext", mk_fresh("js-default", {"typographer": True})),
              ("reconfigured", mk_reconfigured)]
    pairs = [(DOC_A, DOC_B), (DOC_F, DOC_G), (DOC_D, DOC_E), (DOC_B, DOC_C), (DOC_H, DOC_I), (DOC_J, DOC_K)]
    # (i-a) every instruction boundary inside ruler.py during A's first use, B nested
    for mname, mk in makers:
        for da, db in pairs[: 1 if tier == "quick" else 4]:
            sa, sb = solo(mk, da), solo(mk, db)
            n = count_events(mk, da, "instruction", ruler_codes)
            ks = range(1, n + 1)
            if tier == "quick" and n > 700:
                ks = sorted(rng.sample(list(ks), 700))
            for k in ks:
                a, b, _, where = nested_run(mk, da, db, k, "instruction", ruler_codes)
                n_sched += 1
                check(a, b, sa, sb, {"mode": "nested, instruction boundary in ruler.py", "instance": mname, "k": k,
                                     "doc_a": da, "doc_b": db}, where)
                if violations:
                    break
            if violations:
                break
        if violations:
            break
    # (i-b) every source line boundary anywhere in the library, B in a second real thread
    if not violations:
        for mname, mk in makers:
            for da, db in pairs:
                # the nested-label pairs are sized for one nesting limit each
                if (da is DOC_H and "js-default" in mname) or (da is DOC_J and "js-default" not in mname):
                    continue
                sa, sb = solo(mk, da), solo(mk, db)
                n = count_events(mk, da, "line", all_codes)
                ks = list(range(1, n + 1))
                cap = 300 if tier == "quick" else 100000
                if len(ks) > cap:
                    # the first use of an instance initialises whatever is computed lazily: pre-empt at the first
                    # execution of every source line (all of them for the construct-rich pair, a sample otherwise),
                    # and at a random sample of the remaining boundaries
                    firsts = [k for k in first_occurrences(mk, da, all_codes) if k <= n]
                    if (da, db) != (DOC_F, DOC_G) and len(firsts) > 200:
                        firsts = sorted(rng.sample(firsts, 200))
                    ks = sorted(set(firsts) | set(rng.sample(ks, 100)))
                for k in ks:
                    md = mk()
                    c = Controller([lambda: md.render(da), lambda: md.render(db)], [(0, k), (1, 1 << 50)], "line", all_codes)
                    res = c.run()
                    n_sched += 1
                    check(res[0], res[1], sa, sb, {"mode": "two threads, line boundary anywhere in markdown_it/mdurl",
                                                   "instance": mname, "k": k, "doc_a": da, "doc_b": db}, c.where)
                    if violations:
                        break
                if violations:
                    break
            if violations:
                break
    # (i-c) the construct-rich pair, both ways round: B as a second thread AND B nested, at the first execution of EVERY source
    # line of the library during A (a window between reading and writing an object shared by the instance or the process opens
    # the first time its lines run: scratch objects on the renderer, memo variables of a module, lazily built tables)
    if not violations:
        for mname, mk in makers[: 2 if tier == "quick" else 3]:
            for da, db in ((DOC_M, DOC_N), (DOC_N, DOC_M)):
                sa, sb = solo(mk, da), solo(mk, db)
                n = count_events(mk, da, "line", all_codes)
                firsts = [k for k in first_occurrences(mk, da, all_codes, every_in=global_codes) if k <= n]
                for k in firsts:
                    md = mk()
                    c = Controller([lambda: md.render(da), lambda: md.render(db)], [(0, k), (1, 1 << 50)], "line", all_codes)
                    res = c.run()
                    n_sched += 1
                    check(res[0], res[1], sa, sb, {"mode": "two threads, first execution of a source line anywhere in markdown_it/mdurl",
                                                   "instance": mname, "k": k, "doc_a": da, "doc_b": db}, c.where)
                    if violations:
                        break
                    a, b, _, where = nested_run(mk, da, db, k, "line", all_codes)
                    n_sched += 1
                    check(a, b, sa, sb, {"mode": "nested, first execution of a source line anywhere in markdown_it/mdurl",
                                         "instance": mname, "k": k, "doc_a": da, "doc_b": db}, where)
                    if violations:
                        break
                if violations:
                    break
            if violations:
                break
    # (ii) fine-grained random schedules, 2-3 threads
    if not violations:
        n_fine = 60 if tier == "quick" else 3000
        for q in range(n_fine):
            mname, mk = makers[q % len(makers)]
            three = q % 3 == 0
            ds = [DOC_A, DOC_B] + ([DOC_C] if three else [])
            sol = [solo(mk, d) for d in ds]
            md = mk()
            sched = [(rng.randrange(len(ds)), rng.randrange(1, 400)) for _ in range(rng.randrange(2, 12))]
            gran = "instruction" if q % 2 else "line"
            codes = ruler_codes if gran == "instruction" else all_codes
            c = Controller([(lambda d=d: md.render(d)) for d in ds], sched, gran, codes)
            res = c.run()
            n_sched += 1
            for i, (r, s) in enumerate(zip(res, sol)):
                if r != s:
                    violations.append({"mode": f"{len(ds)} threads, {gran} schedule", "instance": mname, "schedule": sched,
                                       "docs": ds, "wrong": [{"call": i, "got": r, "solo": s}]})
            if q == 0:
                samples.append({"schedule": sched, "granularity": gran, "threads": len(ds)})
            if violations:
                break

    # model on ruler-level schedules
    cases = model_schedule_cases(rng, 300 if tier == "quick" else 5000)
    lines = [sx([15, [False, r, p, s]]) for r, p, s in cases]
    mout = run_model(lines)
    model_bad = []
    for (r, p, s), mo in zip(cases, mout):
        v = unsx(mo)
        ok = isinstance(v, list) and len(v) == len(p)
        if ok:
            for th, prog in zip(v, p):
                exp = [[ch, spec_chain([(n_, e, f, [a for a in al]) for n_, e, f, al in r], ch)] for ch in prog]
                if th[0] != 0 or th[1] != exp:
                    ok = False
        if not ok:
            model_bad.append((r, p, s))
    kn, kbad = run_kernel(list(zip(lines, mout))[:: max(1, len(lines) // 30)], "c13")

    # cold process: the very first link normalisation of a process, pre-empted at every bytecode
    # boundary inside mdurl's table builders and the library's URL code
    cold = cold_process_check()
    n_sched += cold.get("schedules", 0)
    if cold.get("violation"):
        violations.append(cold["violation"])
    real = list(violations)
    if real:
        rep.violation("interference", real[0])
    elif model_bad or not proofs["ok"] or kbad:
        what = {}
        if not proofs["ok"]:
            what["broken_proof"] = proofs["failed"]
        if model_bad:
            what["model_vs_spec"] = {"rules": model_bad[0][0], "programs": model_bad[0][1], "schedule": model_bad[0][2]}
        if kbad:
            what["kernel_vs_extracted"] = kbad[:5]
        # search harder on the implementation before giving up
        found = None
        for mname, mk in makers:
            sa, sb = solo(mk, DOC_A), solo(mk, DOC_B)
            n = count_events(mk, DOC_A, "instruction", ruler_codes)
            for k in range(1, n + 1):
                a, b, _, where = nested_run(mk, DOC_A, DOC_B, k, "instruction", ruler_codes)
                if a != sa or b != sb:
                    found = {"mode": "nested, instruction boundary in ruler.py (exhaustive search)", "instance": mname, "k": k,
                             "doc_a": DOC_A, "doc_b": DOC_B, "preempted_at": where, "got": [a, b], "solo": [sa, sb]}
                    break
            if found:
                break
        if found:
            rep.violation("interference", found)
        else:
            rep.violation("model-correspondence", what, no_input=True)

    cov = {
        "obligations": len(proofs["obligations"]), "discharged": len(proofs["discharged"]),
        "checker_cmd": "make Props/C13.vo (coqc 8.16.1, full .vo) via /verif/build.sh",
        "trusted_base": TRUSTED_COMMON + [
            "CPython: one attribute/dict/list bytecode is atomic under the GIL; frame-local instructions commute with other threads",
            "thread-locality of everything except Ruler.__cache__ is validated by the schedule exploration on the implementation (line/instruction pre-emption everywhere in markdown_it and mdurl), not proved from source",
            "Gen/RulerShape.v (dis of Ruler.getRules/__compile__) ties the model's atomic actions to the bytecode"],
        "theorems": proofs["obligations"], "print_assumptions": proofs["assumptions"],
        "evaluations": n_sched + len(cases), "distinct_nontrivial": n_sched + len(set(lines)),
        "rule": "implementation schedules: (i-a) B nested at every bytecode boundary inside ruler.py during A's first use of the instance; (i-b) B in a second thread at source-line boundaries anywhere in markdown_it/mdurl - at the first execution of every source line during the first use of the instance (every lazy initialisation window) plus a random sample of the other boundaries; (ii) random fine-grained 2-3 thread schedules gated by sys.monitoring; instances fresh (2 presets) and freshly reconfigured; every schedule is a distinct case. model schedules: random rules x programs x schedules vs the chain spec",
        "samples": samples + [{"mode": "nested", "k": 17, "doc_a": DOC_A[:30], "doc_b": DOC_B[:30]}],
        "states": n_sched, "transitions": n_sched, "traces_validated_against_impl": n_sched,
        "model_schedules": len(cases), "model_mismatches": len(model_bad),
        "in_kernel_cases": kn, "in_kernel_mismatches": len(kbad), "violating_schedules": len(violations),
    }
    return rep.finish("proof", cov, ["configuration is not mutated concurrently (hypothesis of the property)",
                                     "mdurl's encode/decode caches are warmed before exploration; the cold-cache race in that dependency is the listed known finding"])


def cold_process_check():
    """each schedule in its own fresh interpreter (the tables are per process): A's first render
    pre-empted at the k-th bytecode boundary inside mdurl/_encode.py, _decode.py, normalize_url.py;
    B rendered there; both compared with solo results"""
    import subprocess
    import os

    script = r"""
import json, sys
sys.path.insert(0, "/verif/harness")
from props import c13
from markdown_it import MarkdownIt
codes = [c for c in c13.lib_code_objects() if c.co_filename.split("/")[-1] in ("_encode.py", "_decode.py", "normalize_url.py")]
da = "[x](http://a.example/\u00e9%20?q=1) <http://b.c/\u00e9%20?q=1>\n"
db = "<http://b.c/\u00e9%20?q=1> [y](/p%41?\u00e9)\n"
ks = [int(x) for x in sys.argv[1].split(",")]
res = []
for k in ks[:1]:
    a, b, n, where = c13.nested_run(c13.mk_fresh(), da, db, k, "instruction", codes)
    res.append([k, a, b, n, where])
print(json.dumps(res))
"""
    env = dict(os.environ, PYTHONPATH="/repo:/verif/harness", PYTHONHASHSEED="0")

    def one(k):
        p = subprocess.run(["/venv/bin/python", "-c", script, str(k)], capture_output=True, text=True, env=env, timeout=120)
        try:
            return json.loads(p.stdout.strip().splitlines()[-1])[0]
        except Exception:  # noqa: BLE001
            return [k, ["exc", "harness: " + p.stderr[-300:]], None, 0, None]
    # expected results and event count from a warm process
    sa = solo(mk_fresh(), "[x](http://a.example/\u00e9%20?q=1) <http://b.c/\u00e9%20?q=1>\n")
    sb = solo(mk_fresh(), "<http://b.c/\u00e9%20?q=1> [y](/p%41?\u00e9)\n")
    first = one(0)
    n = first[3]
    ks = sorted(set([1, 2, 3, 5, 8, 13, 21, 34, 55, 89, 144, 233, 377] + list(range(1, n + 1, max(1, n // 24)))))
    ks = [k for k in ks if 1 <= k <= n]
    from concurrent.futures import ThreadPoolExecutor
    with ThreadPoolExecutor(12) as ex:
        results = list(ex.map(one, ks))
    out = {"schedules": len(results), "violation": None}
    for k, a, b, _, where in results:
        if a != sa or (b is not None and b != sb):
            out["violation"] = {"mode": "fresh process, nested at a bytecode boundary in mdurl/normalize_url during the first link normalisation",
                                "k": k, "preempted_at": where, "wrong": [{"call": "A", "got": a, "solo": sa}, {"call": "B", "got": b, "solo": sb}]}
            break
    return out


def replay(body) -> int:
    from markdown_it import MarkdownIt  # noqa: F401
    ruler_codes = lib_code_objects("ruler.py")
    mk = mk_reconfigured if body.get("instance") == "reconfigured" else (
        mk_fresh("js-default", {"typographer": True}) if "js-default" in str(body.get("instance")) else mk_fresh())
    MarkdownIt().render("[a](http://x.y/) *b*")
    mode = body.get("mode", "")
    if "k" in body and mode.startswith("two threads") and "doc_a" in body:
        all_codes = lib_code_objects()
        da, db = body["doc_a"], body["doc_b"]
        sa, sb = solo(mk, da), solo(mk, db)
        md = mk()
        c = Controller([lambda: md.render(da), lambda: md.render(db)], [(0, int(body["k"])), (1, 1 << 50)], "line", all_codes)
        res = c.run()
        bad = res[0] != sa or res[1] != sb
        print("pre-empted at", c.where, "-> A", "differs" if res[0] != sa else "ok", ", B", "differs" if res[1] != sb else "ok")
        return 1 if bad else 0
    if "k" in body and mode.startswith("nested"):
        line_mode = "source line" in mode
        a, b, _, where = nested_run(mk, body["doc_a"], body["doc_b"], int(body["k"]), "line" if line_mode else "instruction",
                                    lib_code_objects() if line_mode else ruler_codes)
        sa, sb = solo(mk, body["doc_a"]), solo(mk, body["doc_b"])
        bad = a != sa or b != sb
        print("pre-empted at", where, "-> A", "differs" if a != sa else "ok", ", B", "differs" if b != sb else "ok")
        return 1 if bad else 0
    print(json.dumps(body, default=str)[:2000])
    return 0
