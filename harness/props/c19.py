"""C19 — typographic replacements are local to text and never touch structure or literals.

Proof: Props/C19.v (shape preservation of replacements / smartquotes / text_join for all
token lists, any quotes option).  Correspondence (function level, binding): the real
rules replace() and smartquotes() on parser-produced streams vs the model.  Property on
the implementation: parse with the typographer off vs on (replacements, smartquotes,
both; many quotes settings) — same shape, non-text tokens identical, autolink text
identical, and with smartquotes alone text changes only by in-place substitution of
straight quotes."""
from __future__ import annotations

import copy
import json
import re

from common import (Reporter, conclude, guarded, proof_cov, rng_for, run_kernel, run_model, supported, sx, unsx)
import configs
import docs
import tok

QS = configs.QUOTES + [["'", '"', "''", '""'], ["a", "b", "c", "d"], ["<q>", "</q>", "<s>", "</s>"]]
SNIPPETS = ['"a" \'b\' ', '"foo *bar* baz" isn\'t ', '1"" x\'s "q\'q" ', "-- ... (c) (TM) +- ?!.... ,, --- a--b ",
            "<http://a.b/'x'--y> ", "\"see `code` here\" and 'more' text ", "<first+-last@example.com> ", "<o'brien@example.com> ", "<dev--null@example.com> and <a...b@example.com> ", "<x,,y@example.com> <http://a.b/(c)...> ", "'\"'\"' \"\"\" ",
            "a\\\"b\\' &quot;c&#39; ", "[\"l\"](/u \"t'i\") ![\"alt\"](/i) ", "\"*'a'*\" <b>\"x\"</b> "]


def shape(t):
    d = t.as_dict(children=False)
    d.pop("children", None)
    if t.type == "text":
        d["content"] = None
    return d


def subst_ok(off: str, on: str, quotes) -> bool:
    q = list(quotes)[:4]
    alts = {'"': [q[0], q[1], '"'], "'": [q[2], q[3], "’", "'"]}
    pat = "".join("(?:" + "|".join(re.escape(a) for a in alts[c]) + ")" if c in alts else re.escape(c) for c in off)
    return re.fullmatch(pat, on, flags=re.S) is not None


def is_auto(t) -> bool:
    return t.info == "auto" or t.markup in ("autolink", "linkify")


def self_link(t, text: str) -> bool:
    """<address> written as its own link text (URL or e-mail autolink)"""
    from markdown_it.common.utils import unescapeAll  # noqa: F401
    href = t.attrGet("href") or ""
    if not text or " " in text:
        return False
    try:
        from markdown_it.common import normalize_url
        cands = {normalize_url.normalizeLink(text), normalize_url.normalizeLink("mailto:" + text)}
    except Exception:  # noqa: BLE001
        cands = {text, "mailto:" + text}
    return href in cands and ("@" in text or ":" in text)


def compare_streams(off, on, mode, quotes, path=""):
    if len(off) != len(on):
        return {"what": "number of tokens differs", "at": path, "off": [t.type for t in off], "on": [t.type for t in on]}
    inside_auto = 0
    auto_depth = []
    for i, (a, b) in enumerate(zip(off, on)):
        if shape(a) != shape(b):
            return {"what": "token differs in something other than text content", "at": f"{path}[{i}]",
                    "off": a.as_dict(children=False), "on": b.as_dict(children=False)}
        # an autolink is recognised by what it is, not only by the marker the rules themselves consult: info / markup say so, or
        # the link text is the address itself
        if a.type == "link_open" and (is_auto(a) or (i + 2 < len(off) and off[i + 1].type == "text" and off[i + 2].type == "link_close"
                                                     and self_link(a, off[i + 1].content))):
            inside_auto += 1
            auto_depth.append(a.level)
        elif a.type == "link_close" and auto_depth and auto_depth[-1] == a.level:
            inside_auto -= 1
            auto_depth.pop()
        if a.type == "text":
            if inside_auto and a.content != b.content:
                return {"what": "autolink text rewritten", "at": f"{path}[{i}]", "off": a.content, "on": b.content}
            if mode == "smartquotes" and not subst_ok(a.content, b.content, quotes):
                return {"what": "smartquotes changed text other than by substituting straight quotes in place",
                        "at": f"{path}[{i}]", "off": a.content, "on": b.content, "quotes": quotes}
        if (a.children is None) != (b.children is None):
            return {"what": "children presence differs", "at": f"{path}[{i}]"}
        if a.children is not None:
            if a.type == "image" and [c.as_dict() for c in a.children] != [c.as_dict() for c in b.children]:
                return {"what": "image description changed by the typographer", "at": f"{path}[{i}]"}
            d = compare_streams(a.children, b.children, mode, quotes, f"{path}[{i}].children")
            if d:
                return d
    return None


def direct_property(cfg, src, mode, quotes):
    base = copy.deepcopy(cfg)
    base["options"] = dict(base["options"], typographer=False, quotes=quotes)
    base["enable"] = [x for x in base["enable"] if x not in ("replacements", "smartquotes")]
    base["disable"] = [x for x in base["disable"] if x not in ("replacements", "smartquotes")]
    onc = copy.deepcopy(base)
    onc["options"]["typographer"] = True
    onc["enable"] = base["enable"] + (["replacements", "smartquotes"] if mode == "both" else [mode])
    onc["disable"] = base["disable"] + ([] if mode == "both" else ["smartquotes" if mode == "replacements" else "replacements"])
    m0, m1 = configs.make_md(base), configs.make_md(onc)
    if not supported(m0) or not supported(m1):
        return None
    try:
        off = guarded(m0.parse, src)
    except Exception:  # noqa: BLE001
        return None
    try:
        on = guarded(m1.parse, src)
    except Exception as e:  # noqa: BLE001
        return {"what": f"the parse succeeds with the typographer off and raises {type(e).__name__} with it on"}
    d = compare_streams(off, on, mode, quotes)
    if d:
        return d
    return quotes_history(onc, src, quotes)


def quotes_history(onc, src, quotes):
    """The quotes that are substituted are the ones configured NOW: an instance that has already
    parsed with other quotes and then gets `quotes` by item assignment / update() / attribute must
    produce exactly what a fresh instance configured with `quotes` produces."""
    other = "«»‹›" if list(quotes)[:4] != list("«»‹›") else "„“‚‘"
    fresh = configs.make_md(onc)
    for route in ("item", "update", "attr"):
        c0 = copy.deepcopy(onc)
        c0["options"] = dict(c0["options"], quotes=other)
        m = configs.make_md(c0)
        try:
            guarded(m.parse, "\"warm\" 'up' it's\n\n" + src)
            if route == "item":
                m.options["quotes"] = quotes
            elif route == "update":
                m.options.update({"quotes": quotes})
            else:
                m.options.quotes = quotes
            a = guarded(m.parse, src)
            b = guarded(fresh.parse, src)
        except Exception:  # noqa: BLE001
            return None
        if [t.as_dict() for t in a] != [t.as_dict() for t in b]:
            return {"what": f"quotes set through {route} after an earlier parse are not the ones substituted (fresh instance with the same options differs)",
                    "route": route, "earlier_quotes": other}
    return None


def run(ctx) -> int:
    rep: Reporter = ctx["rep"]
    tier, seed, proofs = ctx["tier"], ctx["seed"], ctx["proofs"]
    rng = rng_for("C19", seed)
    from markdown_it import MarkdownIt
    from markdown_it.rules_core import replace, smartquotes
    from markdown_it.rules_core.state_core import StateCore

    # function-level correspondence
    n = 900 if tier == "quick" else 15000
    cases, expect, inputs = [], [], []
    for k in range(n):
        q = rng.choice(QS)
        md = MarkdownIt("commonmark", {"typographer": True, "quotes": q}).enable(["table", "strikethrough"]).disable(
            ["replacements", "smartquotes", "text_join"])
        src = rng.choice(SNIPPETS) + docs.random_doc(rng) if rng.random() < 0.6 else docs.random_doc(rng)
        try:
            ts = guarded(md.parse, src)
        except Exception:  # noqa: BLE001
            continue
        if not tok.encodable(ts):
            continue
        enc = tok.enc_tokens(ts)
        st = StateCore("", md, {}, copy.deepcopy(ts))
        try:
            if k % 2:
                guarded(replace, st)
                cases.append(sx([25, enc]))
            else:
                guarded(smartquotes, st)
                cases.append(sx([26, [list(q) if isinstance(q, str) else q, enc]]))
            expect.append([tok.canon_py_token(t) for t in st.tokens])
        except Exception as e:  # noqa: BLE001  (the rules never raise on parser streams; the model returns normally)
            cases.append(sx([25, enc]) if k % 2 else sx([26, [list(q) if isinstance(q, str) else q, enc]]))
            expect.append(["implementation raised " + type(e).__name__])
        inputs.append({"src": src, "quotes": q, "rule": "replace" if k % 2 else "smartquotes"})
    out = run_model(cases)
    disagreements = [inp for o, e, inp in zip(out, expect, inputs)
                     if [tok.canon_model_token(x) for x in (unsx(o) or [])] != e]
    kn, kbad = run_kernel(list(zip(cases, out))[:: max(1, len(cases) // 40)], "c19")

    # the property on the implementation
    direct = None
    n_dir = 0

    def probe(r, count):
        nonlocal n_dir
        # the hand-made corner documents and every snippet first, under an all-rules configuration, every mode, plain and long quotes
        for cd in SNIPPETS + docs.corner_docs():
            for mode in ("replacements", "smartquotes", "both"):
                for q in (QS[0], QS[-1]):
                    cfg = configs.STANDARD[2]
                    n_dir += 1
                    d = direct_property(cfg, cd, mode, q)
                    if d:
                        return {"config": cfg, "src": cd, "mode": mode, "quotes": q, **d}
        for _ in range(count):
            cfg = configs.random_config(r)
            q = r.choice(QS)
            mode = r.choice(["replacements", "smartquotes", "both"])
            src = (r.choice(SNIPPETS) if r.random() < 0.6 else "") + docs.random_doc(r)
            n_dir += 1
            d = direct_property(cfg, src, mode, q)
            if d:
                return {"config": cfg, "src": src, "mode": mode, "quotes": q, **d}
        return None
    direct = probe(rng, 600 if tier == "quick" else 20000)

    conclude(rep, proofs, direct, "typographer-not-local", disagreements, kbad,
             lambda: probe(rng_for("C19", seed, "search"), 3000 if tier == "quick" else 60000),
             "rules_core.replace / smartquotes on a parser-produced stream: model and implementation differ")
    cov = proof_cov("C19", proofs, ["replacements/smartquotes modelled line by line (Model/Core.v); substitutions use the regexes regenerated from /repo",
                                    "the parser is not part of the theorems (they hold for every token list); that the parser feeds these rules as modelled is the pipeline comparison off/on"])
    cov.update({
        "evaluations": len(cases) + n_dir, "distinct_nontrivial": len(set(cases)) + n_dir,
        "rule": "function level: streams from the real parser (typographic rules and text_join disabled, so escapes/entities are still text_special) through replace()/smartquotes() with 9 quotes settings incl. empty and multi-character strings; pipeline: parse with typographer off vs on x {replacements, smartquotes, both} x quotes x random configurations; documents = quote/dash/autolink snippets + generated documents. distinct by wire text / by (config, document)",
        "samples": inputs[:2], "traces_validated_against_impl": len(cases), "pipeline_pairs": n_dir,
        "in_kernel_cases": kn, "in_kernel_mismatches": len(kbad), "disagreements": len(disagreements),
    })
    return rep.finish("proof", cov, ["quotes option: a string of >= 4 characters or a list of four strings"])


def replay(body) -> int:
    if "config" in body and "src" in body:
        d = direct_property(body["config"], body["src"], body.get("mode", "both"), body.get("quotes", "“”‘’"))
        print("C19 on implementation:", "VIOLATED " + json.dumps(d, default=str, ensure_ascii=False)[:1500] if d else "holds")
        return 1 if d else 0
    print(json.dumps(body, default=str)[:1500])
    return 0
