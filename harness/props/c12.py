"""C12 — a parse depends only on configuration, source and env: no hidden shared state.

Proof: Props/C12.v (behaviour is a function of the configuration proper; parses are
inert; operations on one instance never change another; fresh-replay equivalence).
Correspondence (binding): random multi-instance histories on the real library vs the
world model, every instance observed after every step.
Property on the implementation: after an arbitrary history, each live instance
renders/parses probe documents exactly like a FRESH instance on which only its own
construction and management calls were replayed; env omitted == fresh {}; references
do not travel; the shared presets and every other live instance are untouched by any
call (deep comparison)."""
from __future__ import annotations

import copy
import json

from common import (Hang, Opt, Reporter, TRUSTED_COMMON, exc_code, guarded, rng_for, run_kernel, run_model,
                    shrink_list, supported, sx, unsx)
from props import c11
import docs

PROBES = c11.PROBES


# ---------------------------------------------------------------- generation

def gen_world_history(rng, n, presets, registry):
    names = sorted(presets)
    ops = [["new", rng.choice(names), []]]
    live = 1
    for _ in range(n):
        r = rng.random()
        if r < 0.15 and live < 3:
            upd = rng.choice([[], [], [["html", True]], [["html", False], ["breaks", True]], [["typographer", True]],
                              [["maxNesting", 7], ["foo", "bar"]], [["quotes", ["<<", ">>", "<", ">"]]],
                              [["linkify", False], ["xhtmlOut", False]]])
            ops.append(["new", rng.choice(names), upd])
            live += 1
        elif r < 0.55:
            j = rng.randrange(live)
            m = c11.gen_facade_history(rng, 1, presets, registry)[0]
            ops.append(["mgmt", j, m])
        else:
            j = rng.randrange(live)
            ops.append(["parse", j, rng.choice(["render", "parse", "parseInline", "renderInline"]),
                        docs.random_doc(rng), rng.choice(["omit", "fresh", "shared"])])
    return ops


def wire(ops):
    out = []
    for o in ops:
        if o[0] == "new":
            pr = c11.PRESETS_CACHE.get(o[1])
            out.append([0, Opt(None) if pr is None else Opt(c11.preset_wire(pr)), [[k, c11.optval(v)] for k, v in o[2]]])
        elif o[0] == "mgmt":
            out.append([1, o[1], c11.mop_wire(o[2])])
        else:
            out.append([2, o[1], PROBES])
    return sx([13, [PROBES, out]])


# ---------------------------------------------------------------- implementation run

def observe_inst(md, ids):
    def fi(r):
        return lambda f: f if isinstance(f, int) else ids.get((id(r), id(f)), -1)

    def ch(r):
        g = fi(r)
        return [[list(map(ord, s)) for s in r.get_all_rules()], [list(map(ord, s)) for s in r.get_active_rules()],
                [[g(f) for f in r.getRules(c)] for c in PROBES]]
    rr = []
    for name, f in md.renderer.rules.items():
        tag = getattr(getattr(f, "__func__", f), "tag", None)
        if tag is not None:
            rr.append([list(map(ord, name)), tag])
    return [c11.enc_opts_py(md.options), ch(md.core.ruler), ch(md.block.ruler), ch(md.inline.ruler),
            ch(md.inline.ruler2), sorted(rr)]


def deep_state(md):
    """everything reachable from the instance that a later call could observe"""
    def ruler(r):
        return [(x.name, x.enabled, id(x.fn) if not isinstance(x.fn, int) else x.fn, tuple(x.alt)) for x in r.__rules__]
    return {
        "options": json.dumps({k: md.options[k] for k in md.options}, sort_keys=True, default=repr),
        "core": ruler(md.core.ruler), "block": ruler(md.block.ruler), "inline": ruler(md.inline.ruler),
        "inline2": ruler(md.inline.ruler2),
        "render": sorted((k, getattr(getattr(v, "__func__", v), "tag", getattr(v, "__name__", "?")))
                         for k, v in md.renderer.rules.items()),
    }


def presets_state():
    import markdown_it.main as main
    return json.dumps(main._PRESETS, sort_keys=True, default=repr)


def run_impl_world(ops, check_isolation=True):
    """returns (trace, insts, shared_env, problems) ; trace as the model prints it"""
    from markdown_it import MarkdownIt

    insts = []
    idmaps = []
    trace = []
    problems = []
    shared_env = {}
    p0 = presets_state()
    for k, o in enumerate(ops):
        before = [deep_state(m) for m in insts] if check_isolation else None
        target = None
        try:
            if o[0] == "new":
                md = MarkdownIt(o[1], {a: b for a, b in o[2]} or None)
                ids = {}
                for r in (md.core.ruler, md.block.ruler, md.inline.ruler, md.inline.ruler2):
                    for q, rule in enumerate(r.__rules__):
                        ids[(id(r), id(rule.fn))] = q
                insts.append(md)
                idmaps.append(ids)
                res = [0, [0]]
                target = len(insts) - 1
            elif o[0] == "mgmt":
                target = o[1]
                res = [0, c11.apply_facade_op(insts[o[1]], o[2], None)]
            else:
                target = o[1]
                md = insts[o[1]]
                env = {"omit": None, "fresh": {}, "shared": shared_env}[o[4]]
                if supported(md):
                    env_copy = copy.deepcopy(env)
                    got = call(md, o[2], o[3], env)
                    if check_isolation:
                        # this very call must come out as on a fresh instance with the same configuration
                        fresh = replay_fresh(ops[:k], o[1])
                        if fresh is not None:
                            want = call(fresh, o[2], o[3], env_copy)
                            if got != want:
                                problems.append({"kind": "a call in the history differs from the same call on a fresh instance with the same configuration",
                                                 "op_index": k, "instance": o[1], "api": o[2], "src": o[3],
                                                 "in_history": str(got)[:600], "fresh": str(want)[:600]})
                res = [0, [0]]
        except Hang:
            res = [0, [0]]  # totality is C01's business, not C12's
        except Exception as e:  # noqa: BLE001
            # a parse that raises (e.g. ModuleNotFoundError with linkify on) is not a C12 matter
            res = [1, exc_code(e)] if o[0] != "parse" else [0, [0]]
        trace.append([res, [observe_inst(m, idm) for m, idm in zip(insts, idmaps)]])
        if check_isolation:
            after = [deep_state(m) for m in insts]
            for j, (b, a) in enumerate(zip(before, after)):
                if b != a and (j != target or o[0] == "parse"):
                    problems.append({"kind": "instance changed by a call that must not change it", "op_index": k,
                                     "op": o[:3], "instance": j,
                                     "diff": [key for key in b if b[key] != a[key]]})
            p1 = presets_state()
            if p1 != p0:
                problems.append({"kind": "shared presets changed", "op_index": k, "op": o[:3]})
                p0 = p1
    return trace, insts, shared_env, problems


def canon_model(v):
    for step in v:
        for ob in step[1]:
            ob[5] = sorted(ob[5])
    return v


# ---------------------------------------------------------------- direct property

PROBE_DOCS = [
    "    # indented heading\n\n    - item\n\npara\n    lazy or code\n",
    "| a | b | c |\n|:--|:-:|--:|\n| 1 | 2 | 3 |\n",
    "# T\n\n*a* **b** `c` [l](http://x.y \"t\") ![i](s) <b>h</b>\n\n- i1\n- i2\n\n> q\n\n    code\n\n```py\nf\n```\n\n| a | b |\n|---|---|\n| 1 | 2 |\n\n\"q\" -- (c) ~~s~~\n",
    "[ref] and [other][ref]\n\n[ref]: /u 'T'\n",
    "[ref] undefined here\n",
    "line\nbreak  \nhard &amp; \\* <i>x</i> www.example.com\n",
]


def replay_fresh(ops, j):
    """fresh instance with only instance j's construction and management calls"""
    from markdown_it import MarkdownIt

    count = -1
    md = None
    for o in ops:
        if o[0] == "new":
            count += 1
            if count == j:
                try:
                    md = MarkdownIt(o[1], {a: b for a, b in o[2]} or None)
                except Exception:  # noqa: BLE001
                    count -= 1  # constructor raised: not an instance
            continue
        if o[0] == "mgmt" and o[1] == j and md is not None:
            try:
                c11.apply_facade_op(md, o[2], None)
            except Exception:  # noqa: BLE001
                pass
    return md


def tok_dump(tokens):
    return [t.as_dict() for t in tokens]


def call(md, kind, src, env=None):
    if not supported(md):
        return ["unsupported-configuration"]
    try:
        f = getattr(md, kind)
        r = guarded(f, src) if env is None else guarded(f, src, env)
        return ["ok", tok_dump(r) if kind.startswith("parse") else r]
    except Exception as e:  # noqa: BLE001
        return ["exc", type(e).__name__]


def direct_property(ops):
    """None or a description of the first violation of C12 on the implementation."""
    # constructors that raise create no instance: normalise indices as the run does
    trace, insts, shared_env, problems = run_impl_world(ops)
    if problems:
        return problems[0]
    for j, md in enumerate(insts):
        fresh = replay_fresh(ops, j)
        if fresh is None:
            return {"kind": "harness: replay failed", "instance": j}
        for src in PROBE_DOCS:
            for kind in ("render", "parse", "renderInline"):
                a = call(md, kind, src)
                b = call(fresh, kind, src)
                if a != b:
                    return {"kind": "probe differs from fresh instance", "instance": j, "api": kind, "src": src,
                            "after_history": a, "fresh": b}
                e = {}
                c = call(md, kind, src, e)
                if c != a:
                    return {"kind": "env omitted differs from fresh {}", "instance": j, "api": kind, "src": src,
                            "omitted": a, "fresh_env": c}
    return None


def probe_all_presets(presets):
    """fresh instance of every preset renders every probe document: a fingerprint of any state
    that lives outside instances (module globals, caches, class attributes)"""
    from markdown_it import MarkdownIt

    out = {}
    for name in sorted(presets):
        for upd in (None, {"html": True, "typographer": True, "linkify": False}):
            try:
                md = MarkdownIt(name, upd)
            except Exception as e:  # noqa: BLE001
                out[(name, bool(upd))] = "ctor " + type(e).__name__
                continue
            for src in PROBE_DOCS + docs.seeds()[:40]:
                out[(name, bool(upd), src)] = call(md, "render", src)
    return out


MUTATORS = [
    lambda t: t.attrJoin("class", "cell"), lambda t: t.attrSet("data-x", "1"), lambda t: t.meta.__setitem__("seen", True),
    lambda t: t.attrs.__setitem__("style", "color:red"),
]


def user_mutations_stay_local():
    """tokens are per-parse objects: a render rule (user code) that mutates the token it is handed must not
    change what any later parse - on this or any other instance - produces"""
    from markdown_it import MarkdownIt

    docs_ = PROBE_DOCS
    for preset, upd in (("commonmark", None), ("js-default", {"linkify": False}), ("commonmark", {"html": True})):
        def mk():
            md = MarkdownIt(preset, upd)
            if preset == "commonmark":
                md.enable(["table", "strikethrough"])
            return md
        base = [call(mk(), "render", d) for d in docs_]
        types = set()
        for d in docs_:
            for t in mk().parse(d):
                types.add(t.type)
                for c in t.children or []:
                    types.add(c.type)
        for ty in sorted(types):
            for mi, mut in enumerate(MUTATORS):
                styled = mk()

                def rule(self, tokens, idx, options, env, mut=mut):
                    mut(tokens[idx])
                    return self.renderToken(tokens, idx, options, env)
                styled.add_render_rule(ty, rule)
                firsts = [call(styled, "render", d) for d in docs_]
                seconds = [call(styled, "render", d) for d in docs_]
                if firsts != seconds:
                    k = next(i for i, (a, b) in enumerate(zip(firsts, seconds)) if a != b)
                    return {"kind": "the same render on the same instance differs the second time (a user render rule mutated the token it was handed)",
                            "token_type": ty, "mutator": mi, "src": docs_[k], "first": str(firsts[k])[:500], "second": str(seconds[k])[:500]}
                after = [call(mk(), "render", d) for d in docs_]
                if after != base:
                    k = next(i for i, (a, b) in enumerate(zip(after, base)) if a != b)
                    return {"kind": "a fresh instance renders differently after another instance's render rule mutated its own tokens",
                            "token_type": ty, "mutator": mi, "src": docs_[k], "before": str(base[k])[:500], "after": str(after[k])[:500]}
    return None


def handed_over_options_are_copied():
    """An instance takes a COPY of whatever options object it is given: handing one instance's `options` to another (set(),
    a configuration dict, the constructor) must not couple them - a later option change on either leaves the other as it was."""
    from markdown_it import MarkdownIt

    routes = {
        "b.set(a.options)": lambda a, b: b.set(a.options),
        "b.configure({'options': a.options, 'components': {}})": lambda a, b: b.configure({"options": a.options, "components": {}}),
        "b.configure('commonmark', a.options)": lambda a, b: b.configure("commonmark", a.options),
    }
    changes = [("item", "breaks", True), ("attr", "html", False), ("item", "langPrefix", "x-"), ("attr", "typographer", True),
               ("item", "xhtmlOut", False), ("item", "maxNesting", 2), ("item", "quotes", "«»‹›")]
    for rname, route in routes.items():
        for who in ("giver", "taker"):
            a = MarkdownIt("commonmark", {"html": True})
            b = MarkdownIt("commonmark")
            try:
                route(a, b)
            except Exception:  # noqa: BLE001
                continue
            mutated, other = (a, b) if who == "giver" else (b, a)
            before_state = deep_state(other)
            before = [call(other, "render", d) for d in PROBE_DOCS]
            for how, k, v in changes:
                if how == "item":
                    mutated.options[k] = v
                else:
                    setattr(mutated.options, k, v)
            after = [call(other, "render", d) for d in PROBE_DOCS]
            if deep_state(other) != before_state or after != before:
                k = next((i for i, (x, y) in enumerate(zip(before, after)) if x != y), 0)
                return {"kind": "two instances share one options object after a hand-over: changing an option on one changed the other",
                        "route": rname, "mutated": who, "src": PROBE_DOCS[k], "before": str(before[k])[:400], "after": str(after[k])[:400],
                        "options_before": before_state["options"], "options_after": deep_state(other)["options"]}
    return None


def constructor_arguments_decide():
    """Two instances built with the same constructor arguments - a renderer subclass, a preset given as a
    dict, an options_update - behave identically whatever was constructed or parsed in between; the
    renderer class is part of the configuration (renderer_cls), and a subclass may add rules under
    names the base class has no method for."""
    from markdown_it import MarkdownIt
    from markdown_it.renderer import RendererHTML

    def factory():
        class Custom(RendererHTML):
            def strong_open(self, tokens, idx, options, env):
                return "<b>"

            def strong_close(self, tokens, idx, options, env):
                return "</b>"

            def paragraph_open(self, tokens, idx, options, env):
                return "<p class=x>"

            def fence(self, tokens, idx, options, env):
                return "<pre>F</pre>\n"
        return Custom

    src = "some **bold** text\n\n```py\nc\n```\n\n- *l*\n"
    first = None
    for round_ in range(3):
        for preset in ("commonmark", "js-default", "zero"):
            a = MarkdownIt(preset, renderer_cls=factory())
            if preset == "zero":
                a.enable(["emphasis", "fence", "list"])
            out = call(a, "render", src)
            key = preset
            if first is None:
                first = {}
            if key not in first:
                first[key] = out
            elif first[key] != out:
                return {"kind": "an instance constructed with a renderer subclass renders differently from an identically constructed earlier one",
                        "preset": preset, "src": src, "first": str(first[key])[:400], "later": str(out)[:400]}
            # something unrelated in between
            call(MarkdownIt("commonmark"), "render", src)
            call(MarkdownIt("gfm-like", {"linkify": False}), "render", "| a |\n|---|\n")
        if "<b>bold</b>" not in str(first["commonmark"]) or "<pre>F</pre>" not in str(first["commonmark"]):
            return {"kind": "the methods of a renderer subclass are not the render rules of the instance", "html": str(first["commonmark"])[:400]}
    return None


def toggle_each_rule():
    """for every rule of every chain: an instance that has already parsed, then has the rule toggled, must parse
    like a fresh instance configured the same way - on its very first call after the change"""
    from markdown_it import MarkdownIt

    for preset in ("commonmark", "js-default"):
        m0 = MarkdownIt(preset, {"linkify": False})
        names = sorted({r for rs in m0.get_all_rules().values() for r in rs} - {"linkify"})
        for name in names:
            for start_on in (True, False):
                used = MarkdownIt(preset, {"linkify": False})
                fresh = MarkdownIt(preset, {"linkify": False})
                try:
                    if not start_on:
                        used.disable(name)
                    for d in PROBE_DOCS[:3]:
                        call(used, "render", d)
                    (used.disable if start_on else used.enable)(name)
                    (fresh.disable if start_on else fresh.enable)(name)
                except Exception:  # noqa: BLE001
                    continue
                if not supported(used):
                    continue
                for d in PROBE_DOCS:
                    a, b = call(used, "render", d), call(fresh, "render", d)
                    if a != b:
                        return {"kind": "first call after toggling a rule differs from a fresh instance with the same configuration",
                                "preset": preset, "rule": name, "toggled": "disabled" if start_on else "enabled", "src": d,
                                "used_instance": str(a)[:500], "fresh_instance": str(b)[:500]}
    return None


def refs_do_not_travel():
    from markdown_it import MarkdownIt

    md = MarkdownIt()
    md.render("[ref]: /leak 'x'\n")
    md.parse("[ref]: /leak2\n", {})
    out = md.render("[ref]\n")
    if "leak" in out:
        return {"kind": "reference definition travelled between calls without a shared env", "html": out}
    e = {}
    md.render("[ref]: /kept\n", e)
    if "/kept" not in md.render("[ref]\n", e):
        return {"kind": "shared env does not carry definitions"}
    return None


# ---------------------------------------------------------------- the check

def run(ctx) -> int:
    rep: Reporter = ctx["rep"]
    tier, seed, gen, proofs = ctx["tier"], ctx["seed"], ctx["gen"], ctx["proofs"]
    c11.PRESETS_CACHE.clear()
    c11.PRESETS_CACHE.update(gen["presets"])
    rng = rng_for("C12", seed)
    fingerprint0 = probe_all_presets(gen["presets"])
    n_hist = 150 if tier == "quick" else 2500
    hists = [gen_world_history(rng, rng.randrange(2, 18 if tier == "quick" else 40), gen["presets"], gen["rules"])
             for _ in range(n_hist)]
    lines = [wire(h) for h in hists]
    model_out = run_model(lines)
    disagreements = []
    direct_fail = None
    n_parse = n_mgmt = n_new = 0
    distinct = set()
    for h, line, mo in zip(hists, lines, model_out):
        trace, _, _, _ = run_impl_world(h, check_isolation=False)
        m = unsx(mo)
        if not isinstance(m, list) or canon_model(m) != trace:
            disagreements.append(h)
        n_new += sum(1 for o in h if o[0] == "new")
        n_mgmt += sum(1 for o in h if o[0] == "mgmt")
        n_parse += sum(1 for o in h if o[0] == "parse")
        if sum(1 for o in h if o[0] == "new") >= 2 and any(o[0] == "parse" for o in h):
            distinct.add(line)
    for h in hists:
        d = direct_property(h)
        if d is not None:
            direct_fail = (h, d)
            break
    if direct_fail is None:
        d = (refs_do_not_travel() or constructor_arguments_decide() or handed_over_options_are_copied() or user_mutations_stay_local()
             or toggle_each_rule())
        if d is not None:
            direct_fail = ([], d)
    if direct_fail is None:
        fingerprint1 = probe_all_presets(gen["presets"])
        for key in fingerprint0:
            if fingerprint0[key] != fingerprint1.get(key):
                direct_fail = ([], {"kind": "a fresh instance renders a document differently after the histories of this run than before them (state outside instances)",
                                    "preset": key[0], "src": key[-1], "before": fingerprint0[key], "after": fingerprint1.get(key)})
                break
    ksample = list(zip(lines, model_out))[:: max(1, len(lines) // 25)]
    kn, kbad = run_kernel(ksample, "c12")

    if direct_fail:
        h, d = direct_fail
        small = shrink_list(h, lambda c: bool(c) and c[0][0] == "new" and direct_property(c) is not None) if h else h
        rep.violation("hidden-shared-state", {"history": small, "observed": direct_property(small) if small else d,
                                               "how": "ops: [new preset options_update] | [mgmt instance facade-op] | [parse instance api src env-mode]"})
    elif disagreements or not proofs["ok"] or kbad:
        found = None
        srng = rng_for("C12", seed, "search")
        for _ in range(300 if tier == "quick" else 5000):
            h = gen_world_history(srng, srng.randrange(2, 25), gen["presets"], gen["rules"])
            if direct_property(h) is not None:
                found = h
                break
        if found:
            small = shrink_list(found, lambda c: bool(c) and c[0][0] == "new" and direct_property(c) is not None)
            rep.violation("hidden-shared-state", {"history": small, "observed": direct_property(small)})
        else:
            what = {}
            if not proofs["ok"]:
                what["broken_proof"] = proofs["failed"]
            if disagreements:
                def bad(c):
                    if not c or c[0][0] != "new":
                        return False
                    mo = unsx(run_model([wire(c)])[0])
                    return not isinstance(mo, list) or canon_model(mo) != run_impl_world(c, False)[0]
                what["correspondence"] = {"level": "multi-instance history: model and implementation observe different instance states",
                                          "history": shrink_list(disagreements[0], bad)}
            if kbad:
                what["kernel_vs_extracted"] = kbad[:5]
            rep.violation("model-correspondence", what, no_input=True)

    cov = {
        "obligations": len(proofs["obligations"]), "discharged": len(proofs["discharged"]),
        "checker_cmd": "make Props/C12.vo (coqc 8.16.1, full .vo) via /verif/build.sh",
        "trusted_base": TRUSTED_COMMON + [
            "frame condition 'a parse touches instance state only through Ruler.getRules' is validated dynamically (deep comparison of every live instance and of _PRESETS around every call of every history), not proved from the source",
            "the parser itself is a parameter of the model: the claim proved is that nothing but the configuration proper can influence a call; that the code consults nothing else is what the fresh-instance probes test"],
        "theorems": proofs["obligations"], "print_assumptions": proofs["assumptions"],
        "evaluations": len(hists), "distinct_nontrivial": len(distinct),
        "rule": "random histories over 1-3 live instances: constructions from every preset with option updates, facade management ops (C11 generator incl. ruler ops, configure, options by item/attribute, render rules, nested reset_rules), parse/render/parseInline/renderInline of generated documents with env omitted/fresh/shared; model vs implementation observed on every instance after every step; then %d probe documents x 3 APIs on every instance vs a fresh replay. non-trivial = >=2 instances and >=1 parse; distinct by wire text" % len(PROBE_DOCS),
        "samples": [hists[0][:6]],
        "traces_validated_against_impl": len(hists),
        "ops(new,mgmt,parse)": [n_new, n_mgmt, n_parse],
        "in_kernel_cases": kn, "in_kernel_mismatches": len(kbad), "disagreements": len(disagreements),
    }
    return rep.finish("proof", cov, ["instances are compared through their public observers and __rules__/options/renderer.rules"])


def replay(body) -> int:
    h = body.get("history") or body.get("correspondence", {}).get("history")
    print("history:", json.dumps(h)[:2000])
    d = direct_property(h) if h else None
    if not h:
        # the fixed probes that need no generated history
        d = (refs_do_not_travel() or constructor_arguments_decide() or handed_over_options_are_copied() or user_mutations_stay_local()
             or toggle_each_rule())
    print("property on implementation:", "VIOLATED " + json.dumps(d, default=str)[:1500] if d else "holds")
    return 1 if d else 0
