"""C16 — reference definitions act through env: seeding env equals prepending them.
Proof: Props/C16.v (the reference rule only ever adds to env: an existing label is never
overwritten, later definitions go to duplicate_refs; terminator probes and the paragraph scan
leave env alone).  Correspondence (binding): whole-pipeline model vs implementation on
(documents, seeded env) incl. the resulting env.  Property on the implementation:
(A) env histories (fresh / seeded once / seeded twice) vs one parse of R + blank + D: HTML,
tokens with shifted maps, the records (references + duplicate_refs) with the maps of their own
lines, first definition wins; (B) label matching under case variants / whitespace spelling;
(C) reference form == inline form for (text, destination, title) triples, links and images."""
from __future__ import annotations

import copy
import json
import re

from common import Reporter, conclude, guarded, proof_cov, rng_for
import configs
import docs
import pipecheck

LABEL_ALPHA = list("abcxyzABCXYZ019") + ["ß", "ẞ", "é", "É", "σ", "ς", "Σ", "ǆ", "ǅ", "Ǆ", "K", "k", "İ", "ı", "i", "I", "ﬁ", "ŉ", "ǰ", "ΐ", "ա", "Ա", "中", "-", "_", ".", "*", "!", " ", " ", "\t"]
DEST = ["/u", "/url", "http://a.b/c?d=e&f", "<a b>", "<>", "/p(q)r", "a\\)b", "x&amp;y", "/é", "%41", "%zz", "\\<x", "a\\*b", "#frag", "mailto:x@y", "javascript:x", "<java script:x>", "/a_b_c", "/a*b*", "&#x2F;", "<a\\>b>", "/\\\\"]
TITLE_CH = list("abc xyz") + ["\\\"", "\\'", "\\)", "\\\\", "&amp;", "&quot;", "&#39;", "*", "_", "`", "<", ">", "\n", "\\\n", "é", "\\", "[", "]", "(", "&",
                                # character references for line ends and blanks: text of the title, not structure of the source
                                "&#10;", "&#xA;", "&NewLine;", "&#13;", "&Tab;", "&#32;"]
TEXT = ["t", "some text", "*em*", "`code`", "a\\]b", "x &amp; y", "![i](/j)", "<b>", "two\nlines", "a_b_", "\\[x\\]", "é", "a  b"]


def gen_label(rng):
    n = rng.randrange(1, 7)
    s = "".join(rng.choice(LABEL_ALPHA) for _ in range(n)).strip()
    return s or "lbl"


def case_variant(rng, s):
    out = []
    for c in s:
        r = rng.random()
        if c in " \t":
            out.append(rng.choice([" ", "  ", "\t", " \t ", "\n"]) if r < 0.6 else c)
        elif r < 0.3:
            out.append(c.upper())
        elif r < 0.6:
            out.append(c.lower())
        elif r < 0.7:
            out.append(c.casefold())
        else:
            out.append(c)
    v = "".join(out)
    if v.count("\n") > 0 and ("\n\n" in v or "\n \n" in v or "\n\t\n" in v):
        v = v.replace("\n", " ")
    # a line break inside a label is a blank only while the next line stays paragraph text: what follows it must not be able to
    # start a block (bullet / ordered marker, thematic break, setext underline) - keep the break only in front of a letter
    parts = v.split("\n")
    v = parts[0]
    for nxt in parts[1:]:
        head = nxt.lstrip(" \t")[:1]
        v += ("\n" if head.isalpha() else " ") + nxt
    return v


def gen_title(rng, q):
    n = rng.randrange(0, 7)
    t = "".join(rng.choice(TITLE_CH) for _ in range(n))
    while "\n\n" in t or "\n \n" in t:
        t = t.replace("\n\n", "\n").replace("\n \n", "\n")
    t = t.strip("\n ")
    if q == "(":
        t = t.replace("(", "x")
    esc = {"\"": "\"", "'": "'", "(": ")"}[q]
    # unescaped closing quote inside would end the title early: keep only escaped occurrences
    res, i = [], 0
    while i < len(t):
        if t[i] == "\\" and i + 1 < len(t):
            res.append(t[i:i + 2])
            i += 2
            continue
        if t[i] in (q, esc):
            res.append("\\" + t[i])
        else:
            res.append(t[i])
        i += 1
    t = "".join(res)
    if (len(t) - len(t.rstrip("\\"))) % 2:
        t += "\\"      # an odd run of backslashes at the end would escape the closing quote
    # a continuation line must not start a block of its own (quote, list, heading ...): that is block structure
    t = re.sub(r"\n(?![a-z])", "\nz", t)
    return q + t + esc


def gen_def(rng, label=None):
    label = label if label is not None else gen_label(rng)
    dest = rng.choice(DEST)
    title = ""
    if rng.random() < 0.6:
        title = rng.choice([" ", "\n", "\n  "]) + gen_title(rng, rng.choice("\"'("))
    sep = rng.choice([" ", "  ", "\n", "\n "])
    return f"[{label}]:{sep}{dest}{title}\n"


def gen_R(rng, used):
    n = rng.randrange(1, 5)
    labels = []
    out = []
    for _ in range(n):
        r = rng.random()
        if labels and r < 0.3:
            lab = case_variant(rng, rng.choice(labels))
        elif used and r < 0.6:
            lab = case_variant(rng, rng.choice(used))
        else:
            lab = gen_label(rng)
        labels.append(lab)
        out.append(gen_def(rng, lab))
        if rng.random() < 0.3:
            out.append("\n")
    return "".join(out), labels


def gen_D(rng):
    labs = [gen_label(rng) for _ in range(rng.randrange(1, 4))]
    parts = []
    for _ in range(rng.randrange(1, 6)):
        r = rng.random()
        lab = rng.choice(labs)
        v = case_variant(rng, lab) if rng.random() < 0.5 else lab
        if r < 0.2:
            parts.append(gen_def(rng, v))
        elif r < 0.3:
            parts.append("> " + gen_def(rng, v).replace("\n", "\n> ").rstrip("> ") + "\n")
        elif r < 0.45:
            parts.append(f"[{rng.choice(TEXT)}][{v}] and [{v}] ![{v}][]\n")
        elif r < 0.6:
            parts.append(f"- [{v}][]\n- ![alt][{v}]\n")
        elif r < 0.7:
            parts.append(f"# [{v}]\n")
        else:
            parts.append(docs.random_doc(rng))
        parts.append(rng.choice(["\n", "\n", ""]))
    return "".join(parts), labs


def records(env):
    out = []
    for k, v in (env.get("references") or {}).items():
        out.append((k, v["href"], v["title"], tuple(v["map"])))
    for v in env.get("duplicate_refs") or []:
        out.append((v["label"], v["href"], v["title"], tuple(v["map"])))
    return out


def shift_tokens(ts, k):
    out = []
    for t in ts:
        d = t.as_dict()

        def sh(x):
            if x.get("map"):
                x["map"] = [x["map"][0] + k, x["map"][1] + k]
            for c in x.get("children") or []:
                sh(c)
        sh(d)
        out.append(d)
    return out


def part_a(md, R, D, times):
    nl = R.count("\n") + 1
    try:
        if guarded(md.parse, R, {}) != []:
            return None  # R is not purely definitions for this configuration
        env = {}
        recs, raw = [], []
        lost = False

        def step(shift):
            nonlocal raw, lost
            now = records(env)
            new = new_records(raw, now)
            if new is None:
                lost = True
                new = []
            raw = now
            # records made by this parse carry maps of its own lines: shift them to the combined coordinates
            recs.extend((k, h, t, (m[0] + shift, m[1] + shift)) for k, h, t, m in new)
        for j in range(times):
            guarded(md.parse, R, env)
            step(j * nl)
        base = copy.deepcopy(env)
        toks = guarded(md.parse, D, env)
        html1 = md.renderer.render(toks, md.options, env)
        step(times * nl)
        if lost:
            return {"what": "a recorded definition vanished or changed during a later parse"}
        env2 = {}
        comb = (R + "\n") * times + D
        toks2 = guarded(md.parse, comb, env2)
        html2 = md.renderer.render(toks2, md.options, env2)
    except Exception as e:  # noqa: BLE001
        return {"what": "raised " + type(e).__name__}
    if html1 != html2:
        return {"what": "HTML differs between seeded env and prepended definitions", "seeded": html1[:400], "prepended": html2[:400]}
    if shift_tokens(toks, times * nl) != [t.as_dict() for t in toks2]:
        return {"what": "tokens differ (maps shifted by the prepended lines) between seeded env and prepended definitions"}
    r2 = records(env2)
    if sorted(recs) != sorted(r2):
        return {"what": "recorded definitions (references + duplicate_refs, with maps in combined coordinates) differ",
                "seeded": sorted(set(recs) - set(r2))[:6], "prepended": sorted(set(r2) - set(recs))[:6],
                "counts": [len(recs), len(r2)]}
    # first definition wins: what was in env before D is unchanged by D
    for k, v in (base.get("references") or {}).items():
        if env["references"].get(k) != v:
            return {"what": "an existing definition was overwritten", "label": k}
    refs1 = {k: (v["href"], v["title"]) for k, v in (env.get("references") or {}).items()}
    refs2 = {k: (v["href"], v["title"]) for k, v in (env2.get("references") or {}).items()}
    if refs1 != refs2:
        return {"what": "winning definitions differ", "seeded": str(refs1)[:300], "prepended": str(refs2)[:300]}
    return None


def new_records(prev, now):
    """records present in `now` and not in `prev` (multisets); None when an old record vanished or changed"""
    pool = list(now)
    for r in prev:
        if r in pool:
            pool.remove(r)
        else:
            return None
    return pool


def part_b(md, rng):
    lab = gen_label(rng)
    if "]" in lab or "[" in lab or "\\" in lab:
        return None
    var = case_variant(rng, lab).strip()
    if not var.strip() or var.replace("\n", " ").strip() != var.replace("\n", " ") or "\n" in (var[:1], var[-1:]):
        return None
    src = f"[{lab}]: /target\n\n[{var}]\n"
    try:
        env = {}
        out = guarded(md.render, src, env)
    except Exception as e:  # noqa: BLE001
        return {"what": "raised " + type(e).__name__, "src": src}
    if 'href="/target"' not in out:
        return {"what": "label variant (case / whitespace spelling) did not match its definition", "label": lab, "variant": var, "src": src, "html": out}
    other = gen_label(rng)
    import unicodedata
    fold = lambda s: " ".join(unicodedata.normalize("NFC", s.casefold()).split())  # noqa: E731
    if fold(other) != fold(lab) and "]" not in other and "[" not in other and "\\" not in other:
        out2 = guarded(md.render, f"[{lab}]: /target\n\n[{other}]\n")
        if 'href="/target"' in out2 and other.lower().upper() != lab.lower().upper():
            return {"what": "a different label matched", "label": lab, "other": other}
    return None


ESC_LABELS = ["a\\]b", "\\[x\\]", "x\\]", "\\]", "é\\]Ü y", "a\\\\", "a\\*b", "1\\[2\\]3"]


def part_d(md, rng):
    """labels with escaped brackets / backslashes: the use site must delimit the label as the definition does,
    and the reference form must equal the inline form with the same text"""
    lab = rng.choice(ESC_LABELS)
    var = lab.upper() if rng.random() < 0.3 else lab
    form, inline = rng.choice([("[t][{}]", "[t](/target 'T')"), ("[{}][]", "[{}](/target 'T')"), ("[{}]", "[{}](/target 'T')"),
                               ("![alt][{}]", "![alt](/target 'T')"), ("![{}][]", "![{}](/target 'T')"),
                               ("*x* [te*x*t][{}] y", "*x* [te*x*t](/target 'T') y")])
    src = f"{form.format(var)}\n\n[{lab}]: /target 'T'\n"
    inl = inline.format(var) + "\n"
    try:
        env = {}
        out = guarded(md.render, src, env)
        exp = guarded(md.render, inl)
    except Exception as e:  # noqa: BLE001
        return {"what": "raised " + type(e).__name__, "src": src}
    if env.get("references") and out != exp:
        return {"what": "reference form with an escaped bracket / backslash in the label differs from the inline form although the definition is recorded",
                "src": src, "inline_form": inl, "html": out, "inline_html": exp, "recorded": list(env["references"])}
    return None


def part_c(md, rng):
    text, dest = rng.choice(TEXT), rng.choice(DEST)
    title = gen_title(rng, rng.choice("\"'(")) if rng.random() < 0.7 else ""
    img = rng.random() < 0.4
    if img and "![" in text:
        text = "alt"
    bang = "!" if img else ""
    tsep = rng.choice([" ", "\n", "  "]) if title else ""
    ref = f"{bang}[{text}][r]\n\n[r]: {dest}{tsep}{title}\n"
    inl = f"{bang}[{text}]({dest}{tsep}{title})\n"
    try:
        a, b = guarded(md.render, ref), guarded(md.render, inl)
    except Exception as e:  # noqa: BLE001
        return {"what": "raised " + type(e).__name__, "reference_form": ref, "inline_form": inl}
    tag = "<img " if img else "<a "
    ra, rb = tag in a and "[r]" not in a, tag in b and "](" not in b
    if ra and a != b:
        return {"what": "reference form resolves to something else than the inline form", "reference_form": ref, "inline_form": inl, "reference_html": a, "inline_html": b}
    if ra and not a.endswith("</p>\n") or (ra and a.count("<p>") != 1):
        return {"what": "a resolved definition left stray blocks", "reference_form": ref, "reference_html": a}
    if rb and not ra:
        # the inline form accepts more (e.g. closing paren ends it): only a difference when the definition line itself is well formed
        # decide by the helpers: definition valid iff env holds r
        env = {}
        guarded(md.parse, ref, env)
        if "R" in (env.get("references") or {}):
            return {"what": "definition recorded but reference not resolved", "reference_form": ref, "reference_html": a}
    return None


def run(ctx) -> int:
    rep: Reporter = ctx["rep"]
    tier, seed, proofs = ctx["tier"], ctx["seed"], ctx["proofs"]
    rng = rng_for("C16", seed)
    q = tier == "quick"
    cfgs = [configs.STANDARD[0], configs.STANDARD[1], configs.STANDARD[4]]
    mds = [(c, configs.make_md(c)) for c in cfgs]

    # correspondence incl. seeded env
    cases = []
    for k in range(300 if q else 6000):
        D, labs = gen_D(rng)
        R, _ = gen_R(rng, labs)
        cfg, md = mds[k % 3]
        m = k % 3
        if m == 0:
            cases.append((cfg, "render", R + "\n" + D, None))
        else:
            env = {}
            try:
                for _ in range(m):
                    md.parse(R, env)
            except Exception:  # noqa: BLE001
                continue
            cases.append((cfg, "render", D, env))
    n_run, disagreements, kn, kbad, lines = pipecheck.correspond(cases, "c16")
    count = {"histories": 0, "labels": 0, "triples": 0}

    # the hand-made corner documents as D, with definition blocks that define the labels they use (and more), seeded once / twice
    FIXED_R = ["[foo]: /seeded 'S'\n[a]: /sa\n[r]: /sr \"one\\\ntwo\"\n[s]: /ss\n[bar]: <b>\n",
               "[FOO]: /upper\n[Foo]: /dup 't&#10;u'\n[b]:\n/wrapped\n'title'\n"]

    def probe(r, scale):
        for cd in docs.corner_docs():
            D = cd if cd.endswith("\n") else cd + "\n"
            for j, R in enumerate(FIXED_R):
                cfg, md = mds[(1, 2)[j]]
                count["histories"] += 1
                d = part_a(md, R, D, 1 + j)
                if d:
                    return {"config": cfg, "R": R, "D": D, "times": 1 + j, "part": "A", **d}
        for k in range(int(500 * scale)):
            cfg, md = mds[k % 3]
            D, labs = gen_D(r)
            R, _ = gen_R(r, labs)
            times = 1 + (k % 2)
            count["histories"] += 1
            d = part_a(md, R, D, times)
            if d:
                return {"config": cfg, "R": R, "D": D, "times": times, "part": "A", **d}
        for k in range(int(1200 * scale)):
            cfg, md = mds[k % 3]
            count["labels"] += 1
            d = part_b(md, r)
            if d:
                return {"config": cfg, "part": "B", **d}
        for k in range(int(1500 * scale)):
            cfg, md = mds[k % 3]
            count["triples"] += 1
            d = part_c(md, r)
            if d:
                return {"config": cfg, "part": "C", **d}
        for k in range(int(150 * scale)):
            cfg, md = mds[k % 3]
            count["labels"] += 1
            d = part_d(md, r)
            if d:
                return {"config": cfg, "part": "D", **d}
        return None
    direct = probe(rng, 1 if q else 25)
    conclude(rep, proofs, direct, "env-not-equivalent", disagreements, kbad,
             lambda: probe(rng_for("C16", seed, "search"), 4 if q else 40),
             "whole pipeline with seeded env: model and implementation differ")
    cov = proof_cov("C16", proofs, ["seed_equiv (whole-document statement) and ref_inline_same are decided on the implementation in this run; proved: the reference rule's env discipline (partial)"])
    cov.update({
        "evaluations": n_run + sum(count.values()), "distinct_nontrivial": len(set(lines)) + sum(count.values()),
        "rule": "D: generated documents mixing definitions (top level, quoted), full/collapsed/shortcut references and images, headings, list items, random blocks; R: 1-4 definitions with labels that are case/whitespace variants of labels used or defined in D or of each other, multi-line destinations/titles, blank-separated; histories fresh / seeded once / seeded twice vs one parse of (R + blank)* + D: HTML, tokens (maps shifted), all records with maps in combined coordinates, winners; label variants over an alphabet with ß/ẞ, σ/ς/Σ, ǆ/ǅ/Ǆ, Kelvin sign, dotted/dotless i, ligatures, internal blanks incl. one line break; (text, destination, title) triples over URL-ish/title-ish alphabets incl. escapes, entities, backslash-newline, three title quote styles, links and images",
        "samples": [{"R": "[Foo]: /u 't'\n", "D": "[x][FOO]\n"}, {"src": cases[0][2]}],
        "traces_validated_against_impl": n_run, "implementation_probes": count,
        "in_kernel_cases": kn, "in_kernel_mismatches": len(kbad), "disagreements": len(disagreements),
    })
    return rep.finish("proof", cov, ["normalizeReference's str.lower().upper() is opaque in the model (recorded table per run)"])


def replay(body) -> int:
    d = None
    if body.get("part") == "A":
        d = part_a(configs.make_md(body["config"]), body["R"], body["D"], body["times"])
    elif body.get("part") == "C" and "reference_form" in body:
        md = configs.make_md(body["config"])
        a = md.render(body["reference_form"])
        b = md.render(body["inline_form"]) if "inline_form" in body else None
        d = None if a == b else {"reference_html": a, "inline_html": b}
    elif body.get("part") == "D" and "src" in body:
        md = configs.make_md(body["config"])
        out, exp = md.render(body["src"]), md.render(body["inline_form"])
        d = None if out == exp else {"html": out, "inline_html": exp}
    elif body.get("part") == "B" and "src" in body:
        out = configs.make_md(body["config"]).render(body["src"])
        d = None if 'href="/target"' in out else {"html": out}
    print("C16 on implementation:", "VIOLATED " + json.dumps(d, default=str, ensure_ascii=False)[:1200] if d else "holds / not replayable")
    return 1 if d else 0
