"""C01 — parsing and rendering are total: no input crashes or hangs the library.

Proof: Props/C01.v (component theorems: entity code points are valid for chr(); the renderer
never raises on parser-made attributes; line-table facts).  Correspondence (binding): the
whole-pipeline model vs the implementation over the configuration lattice, exception class
and termination included - the model raises exactly where an unguarded read of the Python
would.  Property on the implementation: parse / render / parseInline / renderInline return
normally (under a wall-clock limit) on generated documents, bounded-exhaustive line
sequences, truncations, deep-nesting families, every configuration; documented TypeErrors;
the command-line entry point on arbitrary bytes."""
from __future__ import annotations

import io
import itertools
import json
import os
import sys
import tempfile

from common import (WORK, Hang, Reporter, conclude, guarded, proof_cov, rng_for, supported)
import configs
import docs
import pipecheck

APIS = ["parse", "render", "parseInline", "renderInline"]


def total_on(md, src, limit=6.0):
    for api in APIS:
        try:
            guarded(getattr(md, api), src, limit=limit)
        except Hang:
            return {"api": api, "problem": f"did not return within {limit}s"}
        except ModuleNotFoundError:
            if md.options.get("linkify"):
                continue
            return {"api": api, "problem": "ModuleNotFoundError with linkify off"}
        except BaseException as e:  # noqa: BLE001
            return {"api": api, "problem": f"raised {type(e).__name__}: {e}"[:300]}
    return None


def deep_families(k):
    return [
        ">" * k + " a", "> " * k + "a", "- " * k + "a", "1. " * (k // 2) + "a", ("> - " * k) + "a", "[" * k + "a", "![" * k + "a",
        "[" * k + "a" + "]" * k, "![" * k + "a" + "](x)" * k, "*" * k + "a", "*a " * k, "_a " * k + "_" * k, "`" * k + "a", "`a" * k,
        "~~" * k + "a", "<" * k, "<a " * k, "&" * k, "&#" * k, "\\" * k, "[a](" * k, "[a](<" * k, "[a]: " * k, "|" * k + "\n" + "-|" * k,
        "a\n" * k, ">\n" * k, "-\n" * k, "#" * k, "***" * k, "    " * k + "a", "\t" * k + "a", "<!--" * k, "<div>" * k, "```" * k,
        ("- a\n" + "  " ) * min(k, 300), "(" * k + ")" * k, "[a](" + "(" * k + ")" * k + ")", "\"" * k, "'" * k, ("> " * (k // 4) + "x\n") * 4,
    ]


WS = ["\xa0", "\x0b", "\x0c", "\x1c", "\x1d", "\x1e", "\x1f", "\x85", "\u1680", "\u2000", "\u2003", "\u200a", "\u2028", "\u2029", "\u202f", "\u205f",
      "\u3000", "&nbsp;", "&#160;", "&emsp;", "&#x2003;", "&#12;", "&#x85;", " ", "\t", "\u200b", "\ufeff",
      # character references in every spelling the entity helpers accept or must reject
      "&#X41;", "&#XA0;", "&#X0A;", "&#xD;", "&#0;", "&#x110000;", "&#99999999;", "&#xD800;", "&#1234567890;", "&NotARealEntity;", "&#;", "&#x;",
      "&AMP;", "&amp", "&#X;", "&#xFFFFFFFF;"]


def ws_doc(r):
    """Unicode white space (raw and as character references) at every site that trims or splits a string:
    fence info, link destinations / titles / labels, heading and paragraph edges, table cells, html attributes"""
    w = lambda: "".join(r.choice(WS) for _ in range(r.randrange(1, 4)))  # noqa: E731
    word = lambda: r.choice(["", "", "a", "py", "x y"])  # noqa: E731
    fence = r.choice(["```", "~~~", "````"])
    shapes = [
        lambda: f"{fence}{w()}{word()}{w() if r.random() < 0.5 else ''}\ncode\n{fence}\n",
        lambda: f"{fence} {w()}\ncode\n",
        lambda: f"[{w()}]: {w()}\n\n[{w()}]\n",
        lambda: f"[a]({w()})  [b](<{w()}> \"{w()}\") ![{w()}]({w()})\n",
        lambda: f"[l]:{w()}/u{w()}'t'\n\n[l]\n",
        lambda: f"#{w()}h{w()}#\n{w()}\n{w()}p{w()}\n===\n",
        lambda: f"|{w()}|{w()}x|\n|-|{w()}-|\n|{w()}|\n",
        lambda: f"<a href={w()}>\n\n<!--{w()}-->\n<b {w()}>x</b>\n",
        lambda: f"-{w()}a\n1.{w()}b\n>{w()}c\n",
        lambda: f"`{w()}` *{w()}* **a{w()}** ~~{w()}~~ \"{w()}\" <{w()}@b.c> &{w()};\n",
    ]
    body = r.choice(shapes)()
    pre = r.choice(["", "", "> ", "- ", "1. ", "> - "])
    if pre:
        pad = {"> ": "> ", "- ": "  ", "1. ": "   ", "> - ": ">   "}[pre]
        lines = body.split("\n")
        body = "\n".join((pre if i == 0 else pad) + ln if ln or i == 0 else ln for i, ln in enumerate(lines))
    return body


CAP_DOCS = ["[a](b)", "[ref]\n\n[ref]: /url", "![a](b)", "*a* **b** ~~c~~", "`c` <http://a.b> <b>x</b> &amp; \\*", "> q\n> > r", "- a\n  - b\n    - c",
            "1. x\n   > y\n   > - z", "# h\n\ntext\n===", "```\nf\n```", "    code", "|a|b|\n|-|-|\n|[c](d)|*e*|", "<div>\n*x*\n</div>", "[a [b](c)](d)",
            "[![i](s)](l)", "*a [b *c* d](e) f*", "\"q\" -- (c) ...", "a  \nb\\\nc", "[a][b][c]\n\n[c]: /c", "> - [x](y)\n>   ```\n>   z\n>   ```", "***\n---", "[", "![", "*", "`",
            "<", "&", "\\", "[a](", "[a](<b", "- [a](b)\n- ![c](d)"]


def cli_case(data: bytes):
    from markdown_it.cli import parse as cli
    WORK.mkdir(parents=True, exist_ok=True)
    with tempfile.NamedTemporaryFile(delete=False, dir=str(WORK), suffix=".md") as f:
        f.write(data)
        name = f.name
    old = sys.stdout
    sys.stdout = io.StringIO()
    try:
        try:
            guarded(cli.main, [name], limit=10)
        except SystemExit as e:
            if e.code not in (0, None):
                return {"problem": f"cli exited with {e.code}"}
        except BaseException as e:  # noqa: BLE001
            return {"problem": f"cli raised {type(e).__name__}: {e}"[:300]}
    finally:
        sys.stdout = old
        os.unlink(name)
    return None


def run(ctx) -> int:
    rep: Reporter = ctx["rep"]
    tier, seed, proofs = ctx["tier"], ctx["seed"], ctx["proofs"]
    rng = rng_for("C01", seed)
    q = tier == "quick"

    # correspondence: model vs implementation incl. exception class and termination
    cases = []
    alpha = docs.line_alphabet()
    for k in range(500 if q else 12000):
        cfg = configs.STANDARD[k % 5] if k % 3 == 0 else configs.random_config(rng)
        r = k % 5
        if r == 4:
            src = ws_doc(rng)
        elif r == 0:
            src = docs.random_doc(rng)
        elif r == 1:
            src = "\n".join(rng.choice(alpha) for _ in range(rng.randrange(1, 5))) + rng.choice(["", "\n"])
        elif r == 2:
            s = rng.choice(docs.seeds())
            src = s[: rng.randrange(len(s) + 1)]
        else:
            src = docs.grammar_doc(rng)
        cases.append((cfg, APIS[k % 4] if k % 3 == 0 else "render", src, None))
    # the hand-made corner documents, each under the two configurations that switch every rule on
    for cd in docs.corner_docs():
        for ci in (2, 4):
            cases.append((configs.STANDARD[ci], "render", cd, None))
    for cd in docs.code_off_docs():
        cases.append((dict(docs.CODE_OFF), "render", cd, None))
    # unstructured token soups under the all-rules configurations
    srng = rng_for("C01", seed, "soup")
    for k in range(300 if q else 6000):
        cases.append((configs.STANDARD[(2, 4, 1)[k % 3]], "render", docs.token_soup(srng), None))
    n_corr, disagreements, kn, kbad, lines = pipecheck.correspond(cases, "c01")

    # the property on the implementation
    direct = None
    counts = {"generated": 0, "exhaustive_lines": 0, "truncations": 0, "deep": 0, "cli": 0, "type_errors": 0}

    def probe(r, scale):
        # (i) generated documents x configuration lattice
        for k in range(int(600 * scale)):
            cfg = configs.STANDARD[k % 5] if k % 3 == 0 else configs.random_config(r)
            md = configs.make_md(cfg)
            if not supported(md):
                continue
            src = (docs.random_doc(r) if k % 2 else docs.grammar_doc(r)) if k % 3 else ws_doc(r)
            counts["generated"] += 1
            d = total_on(md, src)
            if d:
                return {"config": cfg, "src": src, **d}
        # (ii) bounded-exhaustive short line sequences under the table/html configurations
        mds = [(c, configs.make_md(c)) for c in (configs.STANDARD[1], configs.STANDARD[4], configs.STANDARD[2])]
        seqs = list(itertools.product(alpha, repeat=2))
        seqs += [tuple(r.choice(alpha) for _ in range(r.choice([3, 3, 4]))) for _ in range(int(2500 * scale))]
        for sq in seqs:
            for tail in ("", "\n"):
                src = "\n".join(sq) + tail
                for cfg, md in mds:
                    counts["exhaustive_lines"] += 1
                    try:
                        guarded(md.render, src, limit=6)
                    except BaseException as e:  # noqa: BLE001
                        return {"config": cfg, "src": src, "api": "render", "problem": f"{type(e).__name__}: {e}"[:300]}
        # (iii) seeds truncated at every position (sampled)
        for k in range(int(800 * scale)):
            s = r.choice(docs.seeds())
            src = s[: r.randrange(len(s) + 1)]
            cfg = configs.STANDARD[k % 5]
            counts["truncations"] += 1
            d = total_on(configs.make_md(cfg), src)
            if d:
                return {"config": cfg, "src": src, **d}
        # (iv) deep nesting / long runs, maxNesting variants
        for depth in ((40, 150) if scale <= 1 else (40, 150, 600, 2500)):
            for fam in deep_families(depth):
                for cfg in (configs.STANDARD[0], configs.STANDARD[1], dict(configs.STANDARD[4], options=dict(configs.STANDARD[4]["options"], maxNesting=3))):
                    counts["deep"] += 1
                    d = total_on(configs.make_md(cfg), fam, limit=8)
                    if d:
                        return {"config": cfg, "src": fam if len(fam) < 400 else fam[:200] + "...", "family_len": len(fam), **d}
        # (iv') every construct at the lowest nesting caps
        for mn in (1, 2, 3):
            for base in (configs.STANDARD[0], configs.STANDARD[1], configs.STANDARD[4]):
                cfg = dict(base, options=dict(base["options"], maxNesting=mn))
                md = configs.make_md(cfg)
                for src in CAP_DOCS:
                    counts["deep"] += 1
                    d = total_on(md, src, limit=5)
                    if d:
                        return {"config": cfg, "src": src, **d}
        # (v) command line on arbitrary bytes
        for k in range(int(60 * scale)):
            data = bytes(r.randrange(256) for _ in range(r.randrange(0, 60))) if k % 2 else r.choice(docs.seeds()).encode()[: r.randrange(80)] + bytes([r.randrange(128, 256)])
            counts["cli"] += 1
            d = cli_case(data)
            if d:
                return {"cli_bytes": list(data), **d}
        # (vi) the documented errors
        from markdown_it import MarkdownIt
        md = MarkdownIt()
        for api in APIS:
            for bad_src, bad_env in ((b"bytes", None), (None, None), (3, None), ("x", []), ("x", "env")):
                counts["type_errors"] += 1
                try:
                    getattr(md, api)(bad_src, bad_env) if bad_env is not None else getattr(md, api)(bad_src)
                    return {"api": api, "problem": f"no TypeError for src={bad_src!r} env={bad_env!r}"}
                except TypeError:
                    pass
                except BaseException as e:  # noqa: BLE001
                    return {"api": api, "problem": f"{type(e).__name__} instead of TypeError for src={bad_src!r} env={bad_env!r}"}
        try:
            MarkdownIt("commonmark", {"linkify": True}).enable("linkify").render("http://x.y")
            import importlib.util
            if importlib.util.find_spec("linkify_it") is None:
                return {"problem": "linkify on without the linkifier did not raise ModuleNotFoundError"}
        except ModuleNotFoundError:
            pass
        return None

    direct = probe(rng, 1 if q else 12)
    conclude(rep, proofs, direct, "not-total", disagreements, kbad,
             lambda: probe(rng_for("C01", seed, "search"), 3 if q else 20),
             "whole pipeline (tokens / HTML / env / exception class / termination): model and implementation differ")
    cov = proof_cov("C01", proofs, [
        "proved on the model for every input: parse / parseInline / render / renderInline never raise (block parser, inline parser with post-processing, core chain, renderer on parser output), the block parser is total; NOT proved: that the inline parser's recursion-depth fuel suffices (its two loops are proved fuel-independent) - that is carried by the model-vs-implementation comparison of exception classes / termination and by the exploration of this run (partial)",
        "re / str primitives never raise on str input; surrogate code points excluded; linkify-it-py absent (its guard is modelled)"])
    cov.update({
        "evaluations": n_corr + sum(counts.values()), "distinct_nontrivial": len(set(lines)) + sum(counts.values()),
        "rule": "correspondence: (configuration, API, document) with documents from the seed corpus, mutations, the container x leaf grammar, the 53-shape line alphabet, truncations and the Unicode-white-space family (27 blanks / references at every trimming or splitting site); implementation: generated documents x configuration lattice x 4 APIs; ALL pairs of line shapes (2809) and sampled 3-4 line sequences, with and without final LF, under js-default / html+table / typographer configurations; truncated seeds; 40 deep-nesting / long-run families at depths 40 and 150 (thorough: up to 2500) incl. maxNesting=3; CLI on random bytes; the documented TypeErrors and ModuleNotFoundError",
        "samples": [{"src": cases[1][2], "api": cases[1][1]}, {"family": deep_families(5)[8]}],
        "traces_validated_against_impl": n_corr, "implementation_probes": counts,
        "in_kernel_cases": kn, "in_kernel_mismatches": len(kbad), "disagreements": len(disagreements),
    })
    return rep.finish("proof", cov, ["'supported' configurations only: paragraph, text, normalize, block, inline, text_join enabled; 1 <= maxNesting <= 100"])


def replay(body) -> int:
    if "cli_bytes" in body:
        d = cli_case(bytes(body["cli_bytes"]))
    elif "config" in body and "src" in body:
        d = total_on(configs.make_md(body["config"]), body["src"])
    else:
        print(json.dumps(body, default=str)[:1500])
        return 0
    print("C01 on implementation:", "VIOLATED " + json.dumps(d, default=str)[:1500] if d else "holds")
    return 1 if d else 0
