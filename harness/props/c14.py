"""C14 — an exception escaping from user code leaves the instance intact.

Proof: Props/C14.v (reset_rules restores on every exit path of any body; a failed
parse has touched the instance only through getRules; rules are never lost).
Correspondence: (a) facade histories made of reset_rules blocks (bodies raising at
the end, inside, nested) on the real MarkdownIt vs the model (try/finally shape);
(b) fault injection: the k-th invocation of any rule of any chain / any render rule /
the highlight callback raises, for k over the invocations on a document; afterwards
the instance must be indistinguishable from one on which the call never happened."""
from __future__ import annotations

import json

from common import (Hang, Reporter, TRUSTED_COMMON, exc_code, guarded, rng_for, run_kernel, run_model,
                    shrink_list, supported, sx, unsx)
from props import c11
import docs


class Boom(Exception):
    pass


class BoomBase(BaseException):
    pass


EXC_TYPES = [ValueError, KeyError, Boom, IndexError, BoomBase, TypeError, AttributeError, StopIteration]


# ---------------------------------------------------------------- (a) reset_rules

def gen_reset_history(rng, presets, registry):
    ops = [[3, ("name", rng.choice(sorted(presets))), []]]
    for _ in range(rng.randrange(1, 6)):
        if rng.random() < 0.7:
            body = c11.gen_facade_history(rng, rng.randrange(0, 5), presets, registry, depth=1)
            # bodies that fail on their own: an unknown name without ignoreInvalid
            if rng.random() < 0.4:
                body.insert(rng.randrange(len(body) + 1),
                            rng.choice([[0, ["emphasis", "nope"], False], [1, ["nope"], False],
                                        [2, 2, [6, ["emphasis", "zz"], False]], [2, 1, [5, ["paragraf"], False]],
                                        [2, 0, [4, ["normalize", "nope"], False]]]))
            ops.append([10, body, rng.choice([None, 3, 3])])
        else:
            ops += c11.gen_facade_history(rng, 1, presets, registry)
    ops.append([7])
    return ops


def names_unique(md):
    a = md.get_all_rules()
    return all(len(set(v)) == len(v) for v in a.values())


RESET_PROBES = ["`a` *b* ~~c~~ [l](/u) <x@y.z> &amp; \\* ![i](/j)\n\n- x\n> y\n\n| a |\n|---|\n| b |\n\n# h\n\n    code\n", "plain `p`"]

# entered with a chain that has no active rule at all (the restore then enables nothing in it), bodies that parse
FIXED_RESET_HISTORIES = [
    [[3, ("name", "zero"), []], [1, ["text"], False], [10, [[0, ["backticks"], False]], 3], [7]],
    [[3, ("name", "zero"), []], [1, ["text"], False], [10, [[0, ["emphasis", "backticks", "link"], False]], None], [7]],
    [[3, ("name", "zero"), []], [1, ["balance_pairs", "fragments_join"], False], [10, [[0, ["emphasis", "strikethrough"], False]], 3], [7]],
    [[3, ("name", "zero"), []], [1, ["normalize", "block", "inline", "text_join"], False], [10, [[0, ["block", "inline", "heading"], False]], None], [7]],
    [[3, ("name", "commonmark"), []], [1, ["text", "newline", "escape", "backticks", "emphasis", "link", "image", "autolink", "html_inline", "entity"], False],
     [10, [[0, ["backticks", "text"], False], [10, [[0, ["emphasis"], False]], 3]], None], [7]],
    [[3, ("name", "js-default"), []], [10, [[0, ["table"], True], [1, ["emphasis", "list"], False]], 3], [10, [[1, ["table", "strikethrough"], False]], None], [7]],
]


def _parses(md) -> bool:
    """the block chain can always make progress (without the paragraph rule the block loop does not terminate - C01's business)"""
    try:
        return "paragraph" in md.get_active_rules()["block"]
    except Exception:  # noqa: BLE001
        return False


def _behaviour(md):
    out = []
    if not _parses(md):
        return out
    for src in RESET_PROBES:
        try:
            out.append([t.as_dict() for t in guarded(md.parse, src, limit=3)])
        except BaseException as e:  # noqa: BLE001
            out.append(type(e).__name__)
    return out


def _behaviour_compiled_afresh(md):
    """what the instance does once every ruler compiles its chains afresh from the rule flags (the compiled chains are put back
    afterwards): whatever a ruler serves from a chain compiled earlier must be what its flags say now"""
    rulers = (md.core.ruler, md.block.ruler, md.inline.ruler, md.inline.ruler2)
    saved = []
    for r in rulers:
        saved.append(getattr(r, "__cache__", None))
        try:
            r.__cache__ = None
        except Exception:  # noqa: BLE001
            pass
    try:
        return _behaviour(md)
    finally:
        for r, c in zip(rulers, saved):
            try:
                r.__cache__ = c
            except Exception:  # noqa: BLE001
                pass


def reset_direct(ops):
    """None or a violation: a reset_rules block whose exit leaves other active rules than on entry, or after which the instance
    parses differently from one in the same reported state (a chain compiled inside the block still being served)"""
    from markdown_it import MarkdownIt

    first = ops[0]
    md = MarkdownIt(first[1][1], {k: v for k, v in first[2]} or None)
    for k, op in enumerate(ops[1:], 1):
        before = md.get_active_rules() if op[0] == 10 else None
        raised = None
        try:
            if op[0] == 10:
                with md.reset_rules():
                    for o in op[1]:
                        c11.apply_facade_op(md, o, None)
                    _behaviour(md)          # the body uses the instance: its chains are compiled under the body's rule set
                    if op[2] is not None:
                        raise c11.UserExc()
            else:
                c11.apply_facade_op(md, op, None)
        except BaseException as e:  # noqa: BLE001
            raised = type(e).__name__
        if op[0] == 10 and names_unique(md):
            after = md.get_active_rules()
            if after != before:
                return {"op_index": k, "raised": raised, "active_on_entry": before, "active_on_exit": after,
                        "what": "reset_rules did not restore the rule set in force on entry"}
            if True:
                got = _behaviour(md)
                want = _behaviour_compiled_afresh(md)
                if got != want:
                    j = next(i for i, (a, b) in enumerate(zip(got, want)) if a != b)
                    return {"op_index": k, "raised": raised, "active_rules": after, "src": RESET_PROBES[j],
                            "after_block": str(got[j])[:500], "same_state_compiled_afresh": str(want[j])[:500],
                            "what": "after the reset_rules block the instance reports the rules in force on entry but parses with other rules"}
    return None


# ---------------------------------------------------------------- (b) fault injection

class Faults:
    def __init__(self):
        self.count = 0
        self.arm_at = None
        self.exc = Boom
        self.sites = []
        self.thrown = None
        self.after = 0          # invocations that happened after the injected exception was thrown
        self.trace = []         # site of every invocation, in order

    def hit(self, site):
        self.count += 1
        self.trace.append(site)
        if self.thrown is not None and self.arm_at is not None:
            self.after += 1
        if self.arm_at is not None and self.count == self.arm_at:
            self.sites.append(site)
            self.thrown = self.exc(f"injected at invocation {self.count} of {site}")
            raise self.thrown


def build_wrapped(preset, opts, faults: Faults, enable=()):
    """instance whose every rule / render rule / highlight goes through a counting wrapper"""
    from markdown_it import MarkdownIt

    o = dict(opts)

    def hl(s, lang, attrs):
        faults.hit("highlight")
        return ""
    o["highlight"] = hl
    md = MarkdownIt(preset, o)
    if enable:
        md.enable(list(enable), True)
    for cname, ruler in (("core", md.core.ruler), ("block", md.block.ruler), ("inline", md.inline.ruler),
                         ("inline2", md.inline.ruler2)):
        for rule in list(ruler.__rules__):
            def mk(fn, site):
                def w(*a, **kw):
                    faults.hit(site)
                    return fn(*a, **kw)
                return w
            ruler.at(rule.name, mk(rule.fn, f"{cname}:{rule.name}"), {"alt": list(rule.alt)})
    # at() keeps the enabled flag of the replaced rule
    for name, fn in list(md.renderer.rules.items()):
        def mkr(fn, site):
            def w(self, tokens, idx, options, env):
                faults.hit(site)
                return fn(tokens, idx, options, env)
            return w
        md.add_render_rule(name, mkr(fn, f"render:{name}"))
    return md


def snapshot(md):
    return {
        "active": md.get_active_rules(), "all": md.get_all_rules(),
        "options": json.dumps({k: (v if not callable(v) else "<fn>") for k, v in md.options.items()}, sort_keys=True, default=repr),
        "render": sorted(md.renderer.rules),
    }


PROBES = ["# h\n\n> q *e*\n> - l\n\n```x\nc\n```\n\n[a](b) ![i](s) `c`\n\n|a|b|\n|-|-|\n|1|2|\n", "a\n\n    code\n\n1. x\n   > y\n",
          # nesting close to the caps: a counter left behind by a failed call shows here
          "[" * 12 + "twelve" + "]" * 12 + "(/t)\n\n" + "[" * 16 + "sixteen" + "]" * 16 + "(/t)\n\n" + "[" * 19 + "nineteen" + "]" * 19 + "(/t)\n",
          "> " * 9 + "nine\n\n" + "> " * 18 + "eighteen\n\n" + "- " * 9 + "item\n"]


def fault_case(preset, opts, enable, doc, k, exc):
    """returns None (property held) or a violation dict"""
    faults = Faults()
    md = build_wrapped(preset, opts, faults, enable)
    if not supported(md):
        return None
    before = snapshot(md)
    faults.arm_at, faults.exc, faults.count = k, exc, 0
    raised = None
    try:
        guarded(md.render, doc, limit=10)
    except Hang:
        return {"what": "render did not return with a fault injected", "k": k}
    except BaseException as e:  # noqa: BLE001
        raised = e
    faults.arm_at = None
    if not faults.sites:
        return None  # k beyond the number of invocations
    if raised is None or type(raised) is not exc or raised is not faults.thrown:
        return {"what": "injected exception did not propagate to the caller (the very exception object raised by the callback)",
                "site": faults.sites, "raised": repr(raised), "expected": exc.__name__}
    if faults.after:
        return {"what": "user code was called again after it had raised (the exception was swallowed and the call retried or continued)",
                "site": faults.sites, "calls_after_the_exception": faults.after}
    after = snapshot(md)
    if after != before:
        return {"what": "instance changed by a failed call", "site": faults.sites,
                "diff": {key: [before[key], after[key]] for key in before if before[key] != after[key]}}
    f2 = Faults()
    fresh = build_wrapped(preset, opts, f2, enable)
    for p in [doc] + PROBES:
        try:
            a = guarded(md.render, p, limit=10)
        except BaseException as e:  # noqa: BLE001
            a = "EXC " + type(e).__name__
        try:
            b = guarded(fresh.render, p, limit=10)
        except BaseException as e:  # noqa: BLE001
            b = "EXC " + type(e).__name__
        if a != b:
            return {"what": "after the failed call the instance renders differently from a fresh one",
                    "site": faults.sites, "probe": p, "after_failure": a, "fresh": b}
        # and differently from what the same configuration rendered before any failure happened in
        # this process (state outside the instance: module-level caches)
        base = BASELINE.get((preset, json.dumps(opts, sort_keys=True), tuple(enable), p))
        if base is not None and a != base:
            return {"what": "after the failed call the same document renders differently than before any failure",
                    "site": faults.sites, "probe": p, "after_failure": a, "before_any_failure": base}
    return None


BASELINE: dict = {}


def fill_baseline(configs, documents):
    for preset, opts, enable in configs:
        md = build_wrapped(preset, opts, Faults(), enable)
        if not supported(md):
            continue
        for p in documents:
            key = (preset, json.dumps(opts, sort_keys=True), tuple(enable), p)
            if key in BASELINE:
                continue
            try:
                BASELINE[key] = guarded(md.render, p, limit=10)
            except BaseException as e:  # noqa: BLE001
                BASELINE[key] = "EXC " + type(e).__name__


def count_invocations(preset, opts, enable, doc):
    faults = Faults()
    md = build_wrapped(preset, opts, faults, enable)
    if not supported(md):
        return 0
    try:
        guarded(md.render, doc, limit=10)
    except BaseException:  # noqa: BLE001
        return 0
    LAST_TRACE[:] = faults.trace
    return faults.count


LAST_TRACE: list = []


CONFIGS = [
    ("commonmark", {}, ()),
    ("js-default", {}, ()),
    ("commonmark", {"typographer": True}, ("table", "strikethrough", "replacements", "smartquotes")),
    ("zero", {}, ("emphasis", "backticks", "list", "blockquote")),
]

FAULT_DOCS = [
    "[[[[[[[[hello *x* `c` <b> &amp; \\* ![i](s)]]]]]]]](/target)\n",
    "> > > > - - - deep *e* [l [m [n](o)](p)](q)\n",
    "> quoted *text*\n> second line\n\n- item one\n- item two\n  > nested quote\n\nplain paragraph\n",
    "# h *e*\n\n```py\ncode\n```\n\n[l](/u \"t\") ![i](/s) `c` <b>x</b> &amp; \\*\n\n|a|b|\n|-|-|\n|c|d|\n",
    "1. a\n   - b\n     > c\n\n[r]: /u\n\n[r] \"q\" -- ~~s~~\n",
]


def run(ctx) -> int:
    rep: Reporter = ctx["rep"]
    tier, seed, gen, proofs = ctx["tier"], ctx["seed"], ctx["gen"], ctx["proofs"]
    c11.PRESETS_CACHE.clear()
    c11.PRESETS_CACHE.update(gen["presets"])
    rng = rng_for("C14", seed)

    # (a) reset_rules histories: model vs implementation, and the direct property
    n_hist = 200 if tier == "quick" else 3000
    hists = [gen_reset_history(rng, gen["presets"], gen["rules"]) for _ in range(n_hist)]
    lines = [sx([12, [True, c11.PROBES, [c11.mop_wire(o) for o in ops]]]) for ops in hists]
    model_out = run_model(lines)
    disagreements = []
    reset_fail = None
    n_blocks = n_raising = 0
    for ops, mo in zip(hists, model_out):
        impl = c11.run_facade_impl(ops)
        m = unsx(mo)
        if not isinstance(m, list) or c11.canon_model_facade(m) != impl:
            disagreements.append(ops)
        n_blocks += sum(1 for o in ops if o[0] == 10)
        n_raising += sum(1 for x in impl if x[0][0] == 1)
    for ops in FIXED_RESET_HISTORIES + hists:
        d = reset_direct(ops)
        if d:
            reset_fail = (ops, d)
            break
    ksample = list(zip(lines, model_out))[:: max(1, len(lines) // 25)]
    kn, kbad = run_kernel(ksample, "c14")

    # (b) fault injection
    fault_fail = None
    n_faults = 0
    sites_seen = set()
    fdocs = list(FAULT_DOCS) + [docs.grammar_doc(rng) for _ in range(3 if tier == "quick" else 40)]
    per_doc = 40 if tier == "quick" else 400
    fill_baseline(CONFIGS, fdocs + PROBES)
    for ci, (preset, opts, enable) in enumerate(CONFIGS):
        for doc in fdocs:
            n = count_invocations(preset, opts, enable, doc)
            if n == 0:
                continue
            ks = list(range(1, n + 1))
            if len(ks) > per_doc:
                ks = sorted(rng.sample(ks, per_doc))
            plan = [(k, EXC_TYPES[(k + ci) % len(EXC_TYPES)]) for k in ks]
            # the option callback and the render rules sit behind library code that inspects exceptions
            # least expectedly: every exception type at their first invocations
            seen_sites: dict = {}
            for idx, site in enumerate(LAST_TRACE, 1):
                if site == "highlight" or site.startswith("render:"):
                    seen_sites[site] = seen_sites.get(site, 0) + 1
                    if seen_sites[site] <= (2 if site == "highlight" else 1):
                        plan += [(idx, e) for e in (EXC_TYPES if site == "highlight" else [TypeError, KeyError, AttributeError])]
            for k, exc in plan:
                v = fault_case(preset, opts, enable, doc, k, exc)
                n_faults += 1
                if v:
                    fault_fail = {"preset": preset, "options": opts, "enable": list(enable), "doc": doc, "k": k,
                                  "exception": exc.__name__, **v}
                    break
            if fault_fail:
                break
        if fault_fail:
            break

    if reset_fail:
        ops, d = reset_fail
        small = shrink_list(ops, lambda c: bool(c) and c[0][0] == 3 and c[0][1][0] == "name" and reset_direct(c) is not None)
        rep.violation("reset-rules-leak", {"history": small, "observed": reset_direct(small),
                                            "how": "facade ops; [10, body, raise_at_end] is a reset_rules block"})
    if fault_fail:
        rep.violation("fault-leaves-instance-changed", fault_fail)
    if not reset_fail and not fault_fail and (disagreements or not proofs["ok"] or kbad):
        what = {}
        if not proofs["ok"]:
            what["broken_proof"] = proofs["failed"]
        if disagreements:
            def bad(c):
                if not c or c[0][0] != 3 or c[0][1][0] != "name":
                    return False
                mo = unsx(run_model([sx([12, [True, c11.PROBES, [c11.mop_wire(o) for o in c]]])])[0])
                return not isinstance(mo, list) or c11.canon_model_facade(mo) != c11.run_facade_impl(c)
            what["correspondence"] = {"level": "reset_rules history: model (try/finally shape) and implementation differ",
                                      "history": shrink_list(disagreements[0], bad)}
        if kbad:
            what["kernel_vs_extracted"] = kbad[:5]
        rep.violation("model-correspondence", what, no_input=True)

    cov = {
        "obligations": len(proofs["obligations"]), "discharged": len(proofs["discharged"]),
        "checker_cmd": "make Props/C14.vo (coqc 8.16.1, full .vo) via /verif/build.sh",
        "trusted_base": TRUSTED_COMMON + [
            "that a parse touches instance state only through getRules is validated by fault injection (snapshot + probes vs a fresh instance), not proved from source",
            "reset_rules theorem assumes rule names unique per chain (duplicate names make enableOnly ambiguous)"],
        "theorems": proofs["obligations"], "print_assumptions": proofs["assumptions"],
        "evaluations": len(hists) + n_faults, "distinct_nontrivial": len(set(lines)) + n_faults,
        "rule": "(a) facade histories of reset_rules blocks with random bodies (management ops, nested blocks, raise at end, failing calls inside); (b) crash points: every k-th invocation (sampled to %d per document) of any wrapped rule of the core/block/inline/inline2 chains, any render rule, or highlight, x 8 exception types incl. a BaseException, TypeError, AttributeError and StopIteration (the very exception object must reach the caller and no user code may run after it), x %d configurations x %d documents; each crash point is a distinct case" % (per_doc, len(CONFIGS), len(fdocs)),
        "samples": [hists[0][:4], {"doc": FAULT_DOCS[0], "k": 7}],
        "traces_validated_against_impl": len(hists),
        "reset_blocks": n_blocks, "raising_steps": n_raising, "crash_points": n_faults,
        "in_kernel_cases": kn, "in_kernel_mismatches": len(kbad), "disagreements": len(disagreements),
    }
    return rep.finish("proof", cov, ["user callbacks are wrappers installed through Ruler.at / add_render_rule / options.highlight"])


def replay(body) -> int:
    if body.get("kind") == "fault-leaves-instance-changed":
        exc = {e.__name__: e for e in EXC_TYPES}[body["exception"]]
        fill_baseline([(body["preset"], body["options"], tuple(body["enable"]))], [body["doc"]] + PROBES)
        v = fault_case(body["preset"], body["options"], tuple(body["enable"]), body["doc"], body["k"], exc)
        print("fault injection replay:", "VIOLATED " + json.dumps(v, default=str)[:1500] if v else "holds")
        return 1 if v else 0
    h = body.get("history") or body.get("correspondence", {}).get("history")
    d = reset_direct(h) if h else None
    print("reset_rules replay:", "VIOLATED " + json.dumps(d, default=str)[:1500] if d else "holds")
    return 1 if d else 0
