"""C09 — backslash-escaping (and character references) make any text literal in every inline
context.  Proof: Props/C09.v (the escape rule on every ASCII punctuation character; escapable
table regenerated from /repo).  Correspondence (binding): whole-pipeline model vs implementation
on the templated documents.  Property on the implementation: for generated t, each context
renders exactly escapeHtml(t).  Known finding: a table cell whose text ends in a backslash."""
from __future__ import annotations

import html as htmlmod
import json
import re

from common import Reporter, conclude, guarded, proof_cov, rng_for
import configs
import pipecheck

PUNCT = "!\"#$%&'()*+,-./:;<=>?@[\\]^_`{|}~"
ALPHA = list("abcXYZ019") + list(PUNCT) + [" ", " ", "\t", "é", "ß", "中", "𝒳", "¡", "«", "—", "\xa0", " ", "​", "‍", "İ"]
CTRL = ["\x01", "\x0b", "\x0c", "\x1c", "\x7f", "\x85", "\x1f", "\x1e"]
UNI_WS = "".join(map(chr, [9, 10, 11, 12, 13, 32, 0x85, 0xA0, 0x1680] + list(range(0x2000, 0x200C)) + [0x2028, 0x2029, 0x202F, 0x205F, 0x3000]))
NAMED = {"&": "&amp;", "<": "&lt;", ">": "&gt;", '"': "&quot;", "*": "&ast;", "[": "&lbrack;", "|": "&vert;", "`": "&grave;", "\\": "&bsol;"}


def esc_html(t):
    return t.replace("&", "&amp;").replace("<", "&lt;").replace(">", "&gt;").replace('"', "&quot;")


def gen_t(rng, ctrl):
    n = rng.randrange(1, 9)
    t = "".join(rng.choice(ALPHA + (CTRL if ctrl else [])) for _ in range(n))
    # "without leading / trailing whitespace": whitespace is what Unicode calls White_Space (plus the zero-width blanks of the
    # alphabet), NOT what str.strip() removes - U+001C..U+001F are control characters, text like any other control character
    t = t.strip(UNI_WS)
    return t


def esc_form(t):
    return "".join("\\" + c if c in PUNCT else c for c in t)


def ref_form(rng, t):
    out = []
    for c in t:
        if c in NAMED and rng.random() < 0.4:
            out.append(NAMED[c])
        elif rng.random() < 0.5:
            out.append(f"&#x{ord(c):x};")
        else:
            out.append(f"&#{ord(c)};")
    return "".join(out)


def contexts(x, table):
    c = {
        "paragraph": (x + "\n", lambda e: f"<p>{e}</p>\n"),
        "heading": ("# " + x + "\n", lambda e: f"<h1>{e}</h1>\n"),
        "emphasis": ("*" + x + "*\n", lambda e: f"<p><em>{e}</em></p>\n"),
        "link text": ("[" + x + "](/u)\n", lambda e: f'<p><a href="/u">{e}</a></p>\n'),
        "image alt": ("![" + x + "](/u)\n", None),
        "title": ('[x](/u "' + x + '")\n', None),
        "title (definition)": ('[x][r]\n\n[r]: /u "' + x + '"\n', None),
        "title (definition, next line)": ('[r]: /u\n  "' + x + '"\n\n[x][r]\n', None),
    }
    if table:
        c["cell"] = ("| " + x + " |\n|---|\n", lambda e: f"<table>\n<thead>\n<tr>\n<th>{e}</th>\n</tr>\n</thead>\n</table>\n")
        c["cell (tight)"] = ("|" + x + "|\n|-|\n", lambda e: f"<table>\n<thead>\n<tr>\n<th>{e}</th>\n</tr>\n</thead>\n</table>\n")
    return c


def check_one(md, t, form, x, table):
    e = esc_html(t)
    for name, (src, exp) in contexts(x, table).items():
        try:
            out = guarded(md.render, src)
        except Exception as ex:  # noqa: BLE001
            return {"context": name, "src": src, "problem": "raised " + type(ex).__name__}
        if name == "image alt":
            m = re.fullmatch(r'<p><img src="/u" alt="(.*)"( /)?></p>\n', out, flags=re.S)
            ok = bool(m) and m.group(1) == e
        elif name.startswith("title"):
            m = re.fullmatch(r'<p><a href="/u" title="(.*)">x</a></p>\n', out, flags=re.S)
            ok = bool(m) and m.group(1) == e
        else:
            ok = out == exp(e)
        if not ok:
            return {"context": name, "form": form, "t": t, "src": src, "html": out, "expected_text": e}
    return None


def nest_html(cs, hid, mid):
    """the HTML C09_render_nested_containers_escaped states (nest_html of Lemmas/NestRender.v)"""
    if not cs:
        return mid if hid else "<p>" + mid + "</p>\n"
    c, r = cs[0], cs[1:]
    if c == "Q":
        return "<blockquote>\n" + nest_html(r, False, mid) + "</blockquote>\n"
    if len(c) == 3:
        start = "" if int(c[0]) == 1 else ' start="%d"' % int(c[0])
        return "<ol" + start + ">\n<li>" + ("\n" if r else "") + nest_html(r, True, mid) + "</li>\n</ol>\n"
    return "<ul>\n<li>" + ("\n" if r else "") + nest_html(r, True, mid) + "</li>\n</ul>\n"



def run(ctx) -> int:
    rep: Reporter = ctx["rep"]
    tier, seed, proofs = ctx["tier"], ctx["seed"], ctx["proofs"]
    rng = rng_for("C09", seed)
    q = tier == "quick"
    cfgs = [configs.STANDARD[0], configs.STANDARD[1],
            {"preset": "commonmark", "options": {}, "enable": ["table", "strikethrough"], "disable": [], "ruler2_off": []}]
    mds = [(c, configs.make_md(c)) for c in cfgs]
    known = rep.known_match("cell:trailing-backslash")

    # correspondence on the templated documents
    cases = []
    for k in range(300 if q else 6000):
        t = gen_t(rng, k % 2 == 0)
        if not t:
            continue
        x = esc_form(t) if k % 2 == 0 else ref_form(rng, t)
        cfg = cfgs[k % 3]
        name = rng.choice(list(contexts(x, True)))
        if name.startswith("cell") and cfg is cfgs[0]:
            name = "paragraph"
        cases.append((cfg, "render", contexts(x, True)[name][0], None))
        if k % 4 == 0:
            # the form the end-to-end theorem C09_render_inline_escaped speaks about
            cases.append((cfg, "renderInline", esc_form(t), None))
    count = {"n": 0, "known": 0}

    def probe(r, n):
        for k in range(n):
            cfg, md = mds[k % 3]
            table = "table" in md.get_active_rules()["block"]
            ctrl = k % 2 == 0
            t = gen_t(r, ctrl)
            if k % 50 in (7, 8):
                # long texts: no length limit applies to link text, descriptions, titles or cells
                t = r.choice(["*" * 600, "x" * 1100, "ab*" * 400, "".join(PUNCT[i % 32] for i in range(700)).replace("|", "!").strip("`"),
                              "word " * 260 + "end"])
            if not t:
                continue
            if ctrl:
                form, x = "backslash", esc_form(t)
            else:
                # character references cannot denote controls / noncharacters
                if any(ord(c) < 32 or 0x7f <= ord(c) <= 0x9f for c in t):
                    continue
                form, x = "reference", ref_form(r, t)
            count["n"] += 1
            d = check_one(md, t, form, x, table)
            if d:
                if d["context"] == "cell (tight)" and form == "backslash" and t.endswith("\\") and known:
                    count["known"] += 1
                    rep.known_finding(known)
                    continue
                return {"config": cfg, **d}
        return None
    # the listed known finding, on its own witness: reported while it still reproduces
    if known:
        wd = check_one(mds[1][1], "a\\", "backslash", esc_form("a\\"), True)
        if wd and wd["context"].startswith("cell"):
            count["known"] += 1
            rep.known_finding(known)
    # the class of C09_render_nested_containers_escaped: escaped texts that start with a letter, behind every list of
    # "> " / bullet markers up to depth 2 and sampled deeper ones: the HTML must be exactly nest_html(cs, escapeHtml(t))
    import itertools
    nest_bad = None
    ctrs = (["Q"] + [(m, k) for m in "-*+" for k in (1, 2, 3, 4)]
            + [(ds, dl, k) for ds in ("1", "2", "007", "10", "999999999", "0") for dl in ".)" for k in (1, 4)])
    nrng = rng_for("C09", seed, "nest")
    fams = [cs for depth in range(0, 3) for cs in itertools.product(ctrs, repeat=depth)]
    fams += [tuple(nrng.choice(ctrs) for _ in range(nrng.randrange(3, 7))) for _ in range(40 if q else 2000)]
    for idx, cs in enumerate(fams):
        t = "x" + gen_t(nrng, True).replace("\n", " ")
        t = t.rstrip(" \t") or "x"
        if t != t.strip() or any(ord(c) < 32 or ord(c) == 0x7f for c in t):
            t = "xa*b_[c]<d>&e"
        src = "".join("> " if c == "Q" else (c[0] + " " * c[1] if len(c) == 2 else c[0] + c[1] + " " * c[2]) for c in cs) + esc_form(t) + "\n"
        count["n"] += 1
        out = guarded(mds[0][1].render, src)
        if out != nest_html(list(cs), False, esc_html(t)) and nest_bad is None:
            nest_bad = {"config": cfgs[0], "context": "nested containers", "containers": [c if c == "Q" else list(c) for c in cs], "t": t, "form": "backslash", "src": src, "html": out[:600]}
        if idx % 5 == 0:
            cases.append((cfgs[0], "render", src, None))
    n_run, disagreements, kn, kbad, lines = pipecheck.correspond(cases, "c09")
    direct = nest_bad or probe(rng, 1500 if q else 60000)
    conclude(rep, proofs, direct, "escaped-text-not-literal", disagreements, kbad,
             lambda: probe(rng_for("C09", seed, "search"), 6000 if q else 100000),
             "whole pipeline on templated escape documents: model and implementation differ")
    cov = proof_cov("C09", proofs, ["the context theorems (inline_esc, para_ctx, alt_ctx, title_ctx ...) are not proved yet: the contexts are decided on the implementation in this run (partial)"])
    cov.update({
        "evaluations": n_run + count["n"], "distinct_nontrivial": len(set(lines)) + count["n"],
        "rule": "t over printable ASCII incl. all 32 punctuation characters, inner spaces/tabs, non-ASCII letters/punctuation/blanks/format characters, (backslash form) control characters; trimmed; esc(t) = backslash before each ASCII punctuation, ref(t) = decimal/hex/named character references; contexts (paragraph, heading, emphasis, link text, image alt, link title inline and in a reference definition, table cell) x commonmark, js-default, commonmark+table+strikethrough; expected output is exactly escapeHtml(t) in place",
        "samples": [{"t": "a*b &", "esc": esc_form("a*b &")}, {"src": cases[0][2]}],
        "traces_validated_against_impl": n_run, "implementation_texts": count["n"], "known_finding_hits": count["known"],
        "in_kernel_cases": kn, "in_kernel_mismatches": len(kbad), "disagreements": len(disagreements),
    })
    return rep.finish("proof", cov, ["typographer off (as the property states)"])


def replay(body) -> int:
    if body.get("context") == "nested containers":
        md = configs.make_md(body["config"])
        cs = [c if c == "Q" else tuple(c) for c in body["containers"]]
        out = md.render(body["src"])
        bad = out != nest_html(cs, False, esc_html(body["t"]))
        print("C09 on implementation:", "VIOLATED " + json.dumps({"html": out}, ensure_ascii=False)[:800] if bad else "holds")
        return 1 if bad else 0
    if "t" in body and "config" in body:
        md = configs.make_md(body["config"])
        x = esc_form(body["t"]) if body.get("form") == "backslash" else body["src"]
        d = check_one(md, body["t"], body.get("form"), esc_form(body["t"]), "table" in md.get_active_rules()["block"]) if body.get("form") == "backslash" else None
        if d is None and "src" in body:
            out = md.render(body["src"])
            d = None if esc_html(body["t"]) in out else {"html": out}
        print("C09 on implementation:", "VIOLATED " + json.dumps(d, default=str, ensure_ascii=False)[:1200] if d else "holds")
        return 1 if d else 0
    print(json.dumps(body, default=str)[:1500])
    return 0
