"""C20 — work grows at most linearly on adversarial inputs (guards hold).
Proof: Props/C20.v (skipToken is memoised: a hit runs no rule, a miss caches its position - the
bail-out at maxNesting included - and beyond the cap the tail is skipped).  Correspondence
(binding for the guards): the guard state of the inline parser (skipToken memo table, backtick
closer cache, scanned flag) after tokenize, model vs implementation, on small instances of every
family; whole-pipeline correspondence on the same instances.  Growth itself is MEASURED on the
implementation (not a theorem): calls into markdown_it (sys.setprofile, deterministic) at
L, 2L, 4L for each family x preset; doubling the length must not more than roughly double the
work, and the Python stack depth must not grow with the input.  Known finding: consecutive
reference definitions."""
from __future__ import annotations

import json
import math
import os
import sys

from common import Reporter, conclude, guarded, proof_cov, rng_for, run_kernel, run_model
import blockrun
import configs
import pipecheck

RATIO = 2.4          # cost(2L) <= RATIO * cost(L) + SLACK
SLACK = 3000
DEPTH_SLACK = 12
DEPTH_PER_LEVEL = 6   # frames per nesting level (tokenize -> rule -> tokenize ...), generous


def rep_to(unit, L, head="", tail=""):
    n = max(1, (L - len(head) - len(tail)) // max(1, len(unit)))
    return head + unit * n + tail


def tri(L, line):
    """lines of growing indentation; total length ~ L"""
    m = max(2, int(math.sqrt(2 * L / 2)))
    out, i = [], 0
    while sum(map(len, out)) < L:
        out.append(line(i))
        i += 1
        if i > m * 4:
            break
    return "".join(out)


def backtick_ladder(L):
    out, i = [], 1
    while sum(map(len, out)) < L:
        out.append("`" * i + "a ")
        i += 1
    return "".join(out)


FAMILIES = {
    "open-brackets": lambda L: rep_to("[", L), "open-images": lambda L: rep_to("![", L),
    "nested-brackets": lambda L: "[" * (L // 2) + "a" + "]" * (L // 2), "bracket-words": lambda L: rep_to("[a", L),
    "nested-links": lambda L: "[" * (L // 6) + "a" + "](x)" * (L // 6), "unclosed-link-open": lambda L: rep_to("[a](", L),
    "unclosed-links": lambda L: rep_to("[a](b", L), "unclosed-images": lambda L: rep_to("![a](b", L),
    "unclosed-angle-dest": lambda L: rep_to("[a](<b", L), "unclosed-titles": lambda L: rep_to("[a](b \"", L),
    "links": lambda L: rep_to("[a](b) ", L), "links-titles": lambda L: rep_to("[a](b 'c') ", L), "images": lambda L: rep_to("![a](b)", L),
    "shortcut-refs": lambda L: rep_to("[a] ", L, tail="\n\n[a]: /u\n"), "full-refs-undefined": lambda L: rep_to("[a][b]", L),
    "paren-dest": lambda L: "[a](" + "(" * (L // 2) + ")" * (L // 2) + ")", "parens": lambda L: "(" * (L // 2) + ")" * (L // 2),
    "stars": lambda L: rep_to("*", L), "star-words": lambda L: rep_to("*a ", L), "underscore-words": lambda L: rep_to("_a ", L),
    "mixed-delims": lambda L: rep_to("*a_ ", L), "strong-em-openers": lambda L: rep_to("**a *b ", L),
    "em-open-close": lambda L: "*a " * (L // 6) + "a* " * (L // 6), "underscore-nest": lambda L: "_" * (L // 2) + "a" + "_" * (L // 2),
    "alternating-delims": lambda L: rep_to("*_", L) + "a", "tildes": lambda L: rep_to("~~a ", L), "tilde-run": lambda L: rep_to("~", L),
    "backtick-run": lambda L: rep_to("`", L), "backtick-words": lambda L: rep_to("`a", L), "backtick-ladder": backtick_ladder,
    "backtick-pairs": lambda L: rep_to("``a` ", L),
    "ampersands": lambda L: rep_to("&", L), "numeric-refs-open": lambda L: rep_to("&#", L), "entities": lambda L: rep_to("&amp;", L),
    "bad-entities": lambda L: rep_to("&xyzzy;", L),
    "angles": lambda L: rep_to("<", L), "open-tags": lambda L: rep_to("<a ", L), "open-attrs": lambda L: rep_to("<a b=", L),
    "open-comments": lambda L: rep_to("<!--", L), "open-pi": lambda L: rep_to("<?", L), "autolinks": lambda L: rep_to("<http://a.b> ", L),
    "bad-autolinks": lambda L: rep_to("<http://a b", L),
    "backslashes": lambda L: rep_to("\\", L), "escapes": lambda L: rep_to("\\a\\*", L), "hardbreaks": lambda L: rep_to("a  \n", L),
    "quote-nest": lambda L: rep_to("> ", L, tail="a"), "quote-marks": lambda L: rep_to(">", L), "quote-lines": lambda L: rep_to("> a\n", L),
    "lazy-lines": lambda L: "> a\n" + rep_to("b\n", L), "quote-heading-lazy": lambda L: rep_to("> # h\nb\n", L),
    "quote-fence-lazy": lambda L: rep_to("> ```\n> x\n> ```\nb\n\n", L), "quote-list-lazy": lambda L: rep_to("> - a\nb\n\n", L),
    "quote-then-list-nest": lambda L: "> " + rep_to("- ", L, tail="x"), "quote-ordered-nest": lambda L: rep_to("> 1. ", L, tail="x"),
    "list-quote-nest": lambda L: rep_to("- > ", L, tail="x"), "ordered-quote-nest": lambda L: rep_to("1. > > ", L, tail="x"), "quote-list-nest": lambda L: rep_to("> - ", L, tail="a"),
    "list-nest": lambda L: rep_to("- ", L, tail="a"), "ordered-nest": lambda L: rep_to("1. ", L, tail="a"),
    "list-items": lambda L: rep_to("- a\n", L), "loose-items": lambda L: rep_to("- a\n\n", L), "empty-items": lambda L: rep_to("-\n", L),
    "list-stairs": lambda L: tri(L, lambda i: " " * (2 * i) + "- a\n"), "list-lazy": lambda L: "- a\n" + rep_to("b\n", L),
    "table-rows": lambda L: "|a|b|\n|-|-|\n" + rep_to("|c|d|\n", L), "table-wide": lambda L: "|" * (L // 3) + "\n" + "-|" * (L // 3) + "\n",
    "table-pipes-only": lambda L: rep_to("| ", L), "table-escaped-pipes": lambda L: "|a|\n|-|\n" + rep_to("\\|", L),
    "refdefs": lambda L: "".join(f"[a{i}]: /u\n" for i in range(max(2, L // 10))),
    "paragraph-lines": lambda L: rep_to("a\n", L), "long-word": lambda L: rep_to("a", L), "spaces": lambda L: rep_to(" ", L, tail="a"),
    "trailing-spaces": lambda L: "a" + " " * L + "\n", "blank-lines": lambda L: rep_to("\n", L), "para-then-setext": lambda L: rep_to("a\n", L, tail="===\n"),
    "hashes": lambda L: rep_to("#", L), "headings": lambda L: rep_to("# a\n", L), "hr-lines": lambda L: rep_to("***\n", L), "hr-wide": lambda L: rep_to("* ", L),
    "indented": lambda L: rep_to("    a\n", L), "tabs": lambda L: rep_to("\t", L, tail="a"), "fences-open": lambda L: rep_to("```\n", L),
    "fence-pairs": lambda L: rep_to("```\na\n```\n", L), "html-blocks": lambda L: rep_to("<div>\n", L), "html-block-blank": lambda L: rep_to("<div>\n\n", L),
    "quotes-typographer": lambda L: rep_to("\"a' ", L), "dots-dashes": lambda L: rep_to("a...b--c ", L), "quote-run": lambda L: rep_to("\"", L),
    "unclosed-def-title": lambda L: "[a]: /u '" + rep_to("b\n", L), "def-then-lines": lambda L: "[a]: /u\n" + rep_to("b\n", L),
    "broken-defs": lambda L: rep_to("[a]: <\n", L), "label-long": lambda L: "[" + rep_to("a ", L) + "]: /u\n",
}
# the same inline constructs seen through the validation mode of the rules (skipToken): behind an unclosed
# bracket / image bracket the label scan runs every rule silently
for _name in ["stars", "star-words", "underscore-nest", "alternating-delims", "tilde-run", "tildes", "backtick-run", "backtick-ladder", "backtick-words",
              "ampersands", "entities", "angles", "open-tags", "autolinks", "bad-autolinks", "backslashes", "escapes", "hardbreaks", "links", "images",
              "unclosed-links", "parens", "quote-run"]:
    FAMILIES["in-bracket:" + _name] = (lambda L, f=FAMILIES[_name]: "see [ref " + f(L))
    FAMILIES["in-image:" + _name] = (lambda L, f=FAMILIES[_name]: "![alt " + f(L))
FAMILIES["link-around-star-run"] = lambda L: "[a " + "*" * L + " b](/u)"
FAMILIES["image-around-underscore-run"] = lambda L: "![a " + "_" * L + " b](/u)"

# the same openers spread over the lines of ONE paragraph: guards that jump "to the end" must mean the end of the
# paragraph, not of the line
FAMILIES["open-images-lines"] = lambda L: rep_to("![\n", L)
FAMILIES["open-brackets-lines"] = lambda L: rep_to("[\n", L)
FAMILIES["full-ref-openers-lines"] = lambda L: rep_to("[x][\n", L, tail="\n\n[x]: /u\n")
FAMILIES["image-ref-openers-lines"] = lambda L: rep_to("![x][\n", L, tail="\n\n[x]: /u\n")
FAMILIES["unclosed-link-open-lines"] = lambda L: rep_to("[a](\n", L)
FAMILIES["backtick-opener-lines"] = lambda L: "[" + rep_to("`a\n``b\n", L)

FAMILIES["table-autocomplete"] = lambda L: "|a" * (L // 7) + "|\n" + "|-" * (L // 7) + "|\n" + "|c\n" * (L // 7)
# setext headings whose text starts with "[": the reference rule is tried first on every such block and scans (and copies) all
# following non-blank lines before it gives up - same root cause as refdefs (pointed out by a round-5 seeding agent)
FAMILIES["setext-bracket"] = lambda L: rep_to("[x\n===\n", L)
# images inside image descriptions: every description is tokenized by a parse of its own (fresh state), so what bounds the work is
# that the description is tokenized once per level, not once per enclosing scan
FAMILIES["nested-images"] = lambda L: "![" * (L // 6) + "a" + "](x)" * (L // 6)
FAMILIES["nested-images-in-link"] = lambda L: "[" + "![" * (L // 6) + "a" + "](x)" * (L // 6) + "](y)"
FAMILIES["image-rows"] = lambda L: rep_to("![a ![b ![c](z)](y)](x) ", L)
KNOWN_QUADRATIC = {"refdefs": "family:refdefs", "quote-heading-lazy": "family:quote-heading-lazy", "table-autocomplete": "family:table-autocomplete",
                   "setext-bracket": "family:setext-bracket"}

PRESETS = [
    ("commonmark", {"preset": "commonmark", "options": {}, "enable": [], "disable": [], "ruler2_off": []}),
    ("js-default+typographer", {"preset": "js-default", "options": {"linkify": False, "typographer": True}, "enable": [], "disable": [], "ruler2_off": []}),
]


class Counter:
    def __init__(self):
        self.calls = 0
        self.depth = 0
        self.maxdepth = 0

    def __call__(self, frame, event, arg):
        if event == "call":
            if "markdown_it" in frame.f_code.co_filename:
                self.calls += 1
                self.depth += 1
                if self.depth > self.maxdepth:
                    self.maxdepth = self.depth
        elif event == "return":
            if "markdown_it" in frame.f_code.co_filename and self.depth > 0:
                self.depth -= 1


def measure(md, src, limit):
    c = Counter()
    sys.setprofile(c)
    try:
        guarded(md.render, src, limit=limit)
    finally:
        sys.setprofile(None)
    return c.calls, c.maxdepth


def family_check(name, md, L, limit=120):
    """returns (violation-or-None, row)"""
    f = FAMILIES[name]
    row = []
    try:
        for k in (1, 2, 4):
            src = f(L * k)
            calls, depth = measure(md, src, limit)
            row.append((len(src), calls, depth))
    except BaseException as e:  # noqa: BLE001
        return {"what": f"raised {type(e).__name__} at length {L * k}"[:200]}, row
    (l1, c1, d1), (l2, c2, d2), (l4, c4, d4) = row
    for (la, ca), (lb, cb) in (((l1, c1), (l2, c2)), ((l2, c2), (l4, c4))):
        if cb > RATIO * (lb / la) / 2 * ca + SLACK:
            return {"what": f"doubling the input from {la} to {lb} characters multiplies the calls into markdown_it by {cb / max(1, ca):.2f} "
                            f"({ca} -> {cb}); per character {ca / la:.1f} -> {cb / lb:.1f}"}, row
    cap = DEPTH_PER_LEVEL * int(md.options["maxNesting"]) + DEPTH_SLACK
    if d4 > d1 + DEPTH_SLACK and d4 > cap:
        return {"what": f"Python stack depth inside markdown_it grows with the input beyond what maxNesting allows: {d1} -> {d2} -> {d4} (cap {cap})"}, row
    return None, row


def run(ctx) -> int:
    rep: Reporter = ctx["rep"]
    tier, seed, proofs = ctx["tier"], ctx["seed"], ctx["proofs"]
    rng = rng_for("C20", seed)
    q = tier == "quick"
    L = int(os.environ.get("VERIF_C20_L", "700" if q else "12000"))
    mds = [(n, c, configs.make_md(c)) for n, c in PRESETS]
    known = {fam: rep.known_match(m) for fam, m in KNOWN_QUADRATIC.items()}

    # correspondence: guard state + pipeline on small instances of every family
    glines, gexp, gkeep = [], [], []
    cases = []
    for name, f in FAMILIES.items():
        for size in (24, 61, 150):
            src = f(size + rng.randrange(8))
            for pn, cfg, md in mds:
                cases.append((cfg, "render", src, None))
                for para in src.split("\n\n")[:1]:
                    if "\n\n" in src or len(para) > 400:
                        continue
                    line, exp = blockrun.run_guard_impl(md, para.rstrip("\n"))
                    glines.append(line)
                    gexp.append(exp)
                    gkeep.append((name, pn, para))
    gout = run_model(glines)
    disagreements = []
    for o, e, (name, pn, src) in zip(gout, gexp, gkeep):
        m = blockrun.canon_guard_model(o)
        if m != e:
            what = "guard state differs"
            if m[0] == "ok" and e[0] == "ok":
                what = ("skipToken memo table differs" if m[1] != e[1] else "backtick closer cache differs" if m[2:4] != e[2:4] else "position / token count differs")
            disagreements.append({"family": name, "preset": pn, "src": src, "what": what,
                                  "model": str(m)[:300], "implementation": str(e)[:300]})
    ks = list(zip(glines, gout))[:: max(1, len(glines) // 25)]
    kn, kbad = run_kernel(ks, "c20g")
    n_run, dis2, kn2, kbad2, lines = pipecheck.correspond(cases, "c20", kernel_sample=10)
    disagreements += dis2
    kbad = list(kbad) + list(kbad2)

    table = {}
    count = {"measurements": 0, "known": 0}

    def probe(Lp, names):
        for name in names:
            for pn, cfg, md in mds:
                # the listed quadratic family is measured at a length where it still finishes
                v, row = family_check(name, md, min(Lp, 1500) if name in KNOWN_QUADRATIC else Lp)
                count["measurements"] += len(row)
                table[f"{name}/{pn}"] = [list(r) for r in row]
                if v:
                    if name in KNOWN_QUADRATIC and known.get(name) and ("multiplies the calls" in v["what"] or "Hang" in v["what"]):
                        count["known"] += 1
                        rep.known_finding(known[name])
                        continue
                    return {"family": name, "preset": pn, "config": cfg, "L": Lp, **v}
        return None
    direct = probe(L, list(FAMILIES))
    conclude(rep, proofs, direct, "superlinear-work", disagreements, kbad,
             lambda: probe(L * 3, list(FAMILIES)),
             "guard state / pipeline on small family instances: model and implementation differ")
    cov = proof_cov("C20", proofs, [
        "family-level linear growth is MEASURED on the implementation (calls into markdown_it counted by sys.setprofile), not proved; the theorems cover the skipToken guards on the model",
        "the measure (Python-level calls) is deterministic for a fixed interpreter and PYTHONHASHSEED"])
    worst = sorted(((r[2][1] / max(1, r[1][1]), k) for k, r in table.items() if len(r) == 3), reverse=True)[:6]
    cov.update({
        "explanation": "Cost is not a functional property of the Gallina model, so family-level linear growth cannot be a theorem of it: the theorems (Props/C20.v) establish the guards on the model (skipToken memoisation incl. the maxNesting bail-out, the nesting cap), the guard-state correspondence ties the memo table and the backtick cache of the model to those of the implementation, and growth itself is measured on the implementation with a deterministic call count at three lengths per family.",
        "evaluations": n_run + len(glines) + count["measurements"], "distinct_nontrivial": len(set(lines)) + len(set(glines)) + count["measurements"],
        "rule": f"{len(FAMILIES)} scalable families (brackets, link/image openers and unclosed destinations/titles, emphasis/strikethrough delimiter runs and nests, backtick runs/ladders, entities, angle brackets/tags/comments/autolinks, backslashes, quote/list marker nests, lazy lines, list stairs, table rows/wide tables, definitions, long paragraphs/words/blank runs, headings, thematic breaks, code, html blocks, typographer input) x lengths L, 2L, 4L with L={L} x commonmark, js-default+table+strikethrough+typographer; bound: calls(2x) <= {RATIO}/2 * growth * calls(x) + {SLACK}; stack depth(4L) <= max(depth(L) + {DEPTH_SLACK}, {DEPTH_PER_LEVEL} * maxNesting + {DEPTH_SLACK}); guard-state correspondence on 3 small sizes of each family",
        "samples": [{"family": "nested-brackets", "text": FAMILIES["nested-brackets"](12)}, {"family": "backtick-ladder", "text": backtick_ladder(20)}],
        "traces_validated_against_impl": n_run + len(glines), "guard_state_cases": len(glines), "measurements": count["measurements"],
        "largest_doubling_ratios": [[k, round(x, 2)] for x, k in worst], "known_finding_hits": count["known"],
        "in_kernel_cases": kn + kn2, "in_kernel_mismatches": len(kbad), "disagreements": len(disagreements),
    })
    return rep.finish("other", cov, ["input lengths up to 4L only; cost = Python-level calls into markdown_it"])


def replay(body) -> int:
    d = None
    if "family" in body and "config" in body and "L" in body:
        d, row = family_check(body["family"], configs.make_md(body["config"]), body["L"])
        print("rows (length, calls, depth):", row)
    print("C20 on implementation:", "VIOLATED " + json.dumps(d, default=str)[:1200] if d else "holds / not replayable")
    return 1 if d else 0
