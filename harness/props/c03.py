"""C03 — source maps are in range, non-empty, nested and ordered, and cover the input.
Proof: Props/C03.v (per-rule map theorem for hr; line scan fold lemma).  Correspondence
(binding): whole-pipeline model vs implementation on token dicts incl. maps and env maps.
Property on the implementation: the map predicate on every parse."""
import docs
import parserprop
import propcheck

PRE = [">", "> ", "- ", "1. ", "  ", "", "", ">\t", "   > ", "* ", "10) "]
LEAF = ["a", "", " ", "# h", "---", "    c", "```", "~~~", "[r]: /u", "[r]: /u\n'multi\nline'", "[r]: /u 't&#10;u'", "[r]: /u \"x&NewLine;y&#xA;z\"", "[r]: /u \"one\\\ntwo\"", "[r]:\n/u\n(t)", "a|b\n-|-\nc|d", "<div>", "x\n===", "\\", "- ", "1.", ">"]


def map_doc(rng):
    lines = []
    for _ in range(rng.randrange(1, 7)):
        pre = "".join(rng.choice(PRE) for _ in range(rng.choice([0, 1, 1, 2, 3])))
        for ln in rng.choice(LEAF).split("\n"):
            lines.append(pre + ln)
        if rng.random() < 0.3:
            lines.append(rng.choice(["", "", " ", ">", "> "]))
    return "\n".join(lines) + rng.choice(["\n", "", "\n\n", "\n \n"])


def pred(ts, nsrc, env):
    return propcheck.c03(ts, nsrc, env)


def run(ctx):
    return parserprop.run_generic(
        ctx, "C03", "bad-source-map", pred, map_doc,
        ["generic map theorem over the block loop (maps_generic) and the per-rule contracts except hr are not proved yet: carried by the pipeline correspondence (maps are compared) and the predicate on the implementation (partial)"],
        "correspondence and predicate on: seed corpus, mutations, grammar, and container-prefix x leaf documents with trailing blank lines, EOF with/without LF, lazy continuation, marker-only lines, multi-line definitions, tables; x standard and random configurations (incl. table/code disabled)",
        fixed_extra=docs.line_pairs() + docs.line_triples())


def replay(body):
    return parserprop.replay_generic(body, pred)
