"""C17 — equivalent encodings parse identically: line endings, NUL, structural tabs.

Proof: Props/C17.v (every per-line mixture of LF / CR LF / CR and NUL vs U+FFFD normalise
to the same string, with no CR/NUL left; the rest of the pipeline only sees that string).
Correspondence (binding): rules_core.normalize vs the model (direct definition and the
regenerated-regex definition).  Property on the implementation: tokens (with maps) and HTML
under the three encodings and mixtures, NUL vs U+FFFD, every configuration; tab half (block
model theorems pending): leading-whitespace tabs vs column-exact spaces on documents, and
the constructed container-segment family (b), compared modulo the leading blanks the
property exempts (verbatim blocks, continued code spans; raw inline HTML / multi-line titles
as fixed in DESIGN.md)."""
from __future__ import annotations

import json
import re

from common import (Reporter, conclude, guarded, proof_cov, rng_for, run_kernel, run_model, supported, sx, unsx)
import configs
import docs
import tok


def reencode(src: str, choices) -> str:
    out = []
    i = 0
    k = 0
    while i < len(src):
        c = src[i]
        if c == "\n":
            ch = choices[k % len(choices)] if choices else 0
            k += 1
            nxt = src[i + 1] if i + 1 < len(src) else ""
            if ch == 1:
                out.append("\r\n")
            elif ch == 2 and nxt != "\n":
                out.append("\r")
            elif ch == 2:
                out.append("\r\n")
            else:
                out.append("\n")
        else:
            out.append(c)
        i += 1
    return "".join(out)


def dump(md, src):
    env = {}
    ts = guarded(md.parse, src, env)
    html = md.renderer.render(ts, md.options, env)
    refs = {k: dict(v) for k, v in env.get("references", {}).items()}
    return [t.as_dict() for t in ts], html, refs


def has_cr_nul(ts):
    for t in ts:
        for f in ("content", "markup", "info"):
            v = t.get(f) or ""
            if "\r" in v or "\x00" in v:
                return f"{t['type']}.{f}"
        for k, v in (t.get("attrs") or []):
            if isinstance(v, str) and ("\r" in v or "\x00" in v):
                return f"{t['type']}.attrs[{k}]"
        if t.get("children"):
            r = has_cr_nul(t["children"])
            if r:
                return r
    return None


CR_REF = re.compile(r"&#(?:0*13|[xX]0*[dD]);")


def encoding_property(cfg, src):
    """src without CR.  None or a violation."""
    md = configs.make_md(cfg)
    if not supported(md):
        return None
    try:
        base = dump(md, src)
    except Exception:  # noqa: BLE001
        return None
    # a numeric character reference to U+000D legitimately yields a CR in text (it never was a line end)
    bad = None if CR_REF.search(src) else has_cr_nul(base[0])
    if bad:
        return {"what": "CR or NUL reached a token", "where": bad}
    import random
    r = random.Random(src)
    variants = [("crlf", reencode(src, [1])), ("cr", reencode(src, [2])),
                ("mixed", reencode(src, [r.randrange(3) for _ in range(7)]))]
    if "\x00" in src or "�" in src:
        variants.append(("nul->fffd", src.replace("\x00", "�")))
    else:
        variants.append(("fffd-as-nul", None))
    for name, v in variants:
        if v is None:
            continue
        try:
            got = dump(md, v)
        except Exception as e:  # noqa: BLE001
            return {"what": "variant raised", "variant": name, "error": repr(e)}
        if got != base:
            return {"what": "encoding variant parses differently", "variant": name, "variant_src": v,
                    "html_base": base[1][:400], "html_variant": got[1][:400]}
    return None


# ---- tabs -----------------------------------------------------------------------------

def expand_leading(line: str) -> str:
    out = []
    col = 0
    i = 0
    while i < len(line) and line[i] in " \t":
        if line[i] == "\t":
            w = 4 - col % 4
            out.append(" " * w)
            col += w
        else:
            out.append(" ")
            col += 1
        i += 1
    return "".join(out) + line[i:]


def expand_structural(line: str) -> str:
    """expand every tab in the structural prefix (indent, markers, blanks after markers)"""
    out = []
    col = 0
    i = 0
    n = len(line)
    while i < n:
        c = line[i]
        if c == "\t":
            w = 4 - col % 4
            out.append(" " * w)
            col += w
            i += 1
        elif c == " ":
            out.append(c)
            col += 1
            i += 1
        elif c == ">":
            out.append(c)
            col += 1
            i += 1
        elif c in "-+*" and i + 1 < n and line[i + 1] in " \t":
            out.append(c)
            col += 1
            i += 1
        elif c.isdigit():
            m = re.match(r"\d{1,9}[.)](?=[ \t])", line[i:])
            if not m:
                break
            out.append(m.group())
            col += len(m.group())
            i += len(m.group())
        else:
            break
    return "".join(out) + line[i:]


WS_LEAD = re.compile(r"(^|\n)[ \t]+")


def norm_tok(t):
    t = dict(t)
    ty = t["type"]
    if ty in ("code_block", "fence", "html_block"):
        # verbatim blocks keep the source spelling of blanks (a container segment that ends up inside
        # an indented code block is content there): compare modulo the spelling of blank runs
        t["content"] = re.sub(r"[ \t]+", " ", WS_LEAD.sub(r"\1", t["content"]))
    elif ty == "code_inline":
        # line ends inside a code span become spaces, so line-leading blanks are no longer identifiable
        # (and whether the one-space padding is stripped depends on whether the last blank is a space)
        t["content"] = re.sub(r"[ \t]+", " ", t["content"]).strip(" ")
    elif ty in ("inline", "html_inline", "image"):
        t["content"] = WS_LEAD.sub(r"\1", t["content"])
    if t.get("attrs"):
        t["attrs"] = [[k, WS_LEAD.sub(r"\1", v) if k == "title" and isinstance(v, str) else v] for k, v in t["attrs"]]
    if t.get("children"):
        t["children"] = [norm_tok(c) for c in t["children"]]
    return t


def merge_text(ts):
    out = []
    for t in ts:
        if t.get("children"):
            t = dict(t, children=merge_text(t["children"]))
        if out and t["type"] == "text" and out[-1]["type"] == "text":
            out[-1] = dict(out[-1], content=re.sub(r" +", " ", out[-1]["content"] + t["content"]))
        else:
            out.append(t)
    return out


def loose_tok(t):
    """family (c): a marker-like character in running text keeps the tab after it, which is content there, so
    content is compared with every blank run collapsed; structure (types, nesting, levels, maps, markup, info,
    attributes) is compared exactly"""
    t = norm_tok(t)
    if isinstance(t.get("content"), str):
        t["content"] = "\n".join(re.sub(r"[ \t]+", " ", ln).strip(" ") for ln in t["content"].split("\n"))
    if t.get("children"):
        t["children"] = [loose_tok(c) for c in t["children"]]
    return t


def tab_property(md, doc, twin, loose=False):
    nt = loose_tok if loose else norm_tok
    try:
        a = [nt(t.as_dict()) for t in guarded(md.parse, doc)]
        b = [nt(t.as_dict()) for t in guarded(md.parse, twin)]
    except Exception:  # noqa: BLE001
        return None
    if loose:
        # adjacent text children may split differently around a collapsed blank: compare their concatenation
        a, b = merge_text(a), merge_text(b)
    if a != b:
        return {"what": "tab spelling and space spelling parse differently", "tab_doc": doc, "space_doc": twin,
                "html_tab": md.render(doc)[:400], "html_space": md.render(twin)[:400]}
    return None


LEAVES = ["x", "# h", "```\nf\n```", "- y", "> q", "1. z", "***", "<div>", "[a]: /u", "y *e*", "~~~", "==="]


def spell_blanks(rng, col, width, tabs):
    """a run of blanks of [width] columns starting at column [col]: spaces, or tabs wherever a
    tab fits exactly up to a tab stop"""
    out = ""
    while width > 0:
        w = 4 - col % 4
        if tabs and w <= width and rng.random() < 0.7:
            out += "\t"
        else:
            w = 1
            out += " "
        col += w
        width -= w
    return out, col


def gen_line_pair(rng, nseg, leaf):
    """the same line spelled with tabs and with spaces only"""
    choices = []
    for _ in range(nseg):
        choices.append((rng.randrange(0, 4), rng.choice([">", ">", "-", "*", "+", "1.", "2)", "10."]), rng.randrange(1, 5)))
    state = rng.getstate()
    res = []
    for tabs in (True, False):
        rng.setstate(state)
        line, col = "", 0
        for indent, marker, blanks in choices:
            b, col = spell_blanks(rng, col, indent, tabs)
            line += b + marker
            col += len(marker)
            b, col = spell_blanks(rng, col, blanks, tabs)
            line += b
        res.append(line + leaf)
    return res[0], res[1]


def gen_quote_lines(rng):
    """consecutive lines that each carry 1-3 block quote segments (indent 0-3, '>', 0-4 columns of
    blanks) and a tab-free leaf: nested quotes continued over several lines with differently
    spelled prefixes"""
    tl, sl = [], []
    for _ in range(rng.randrange(2, 4)):
        leaf = rng.choice(["x", "- x", " - x", "# h", "1. z", "", "y", "***", "    c", "```"])
        choices = []
        prev_blanks = 0
        for _ in range(rng.randrange(1, 4)):
            # keep every '>' within 3 columns (after the optional space) of the enclosing content start,
            # so that it is a marker in every context and never paragraph text
            indent = rng.randrange(0, min(4, 5 - prev_blanks))
            blanks = rng.randrange(0, 5)
            choices.append((indent, ">", blanks))
            prev_blanks = blanks
        state = rng.getstate()
        pair = []
        for tabs in (True, False):
            rng.setstate(state)
            line, col = "", 0
            for indent, marker, blanks in choices:
                b, col = spell_blanks(rng, col, indent, tabs)
                line += b + marker
                col += 1
                b, col = spell_blanks(rng, col, blanks, tabs)
                line += b
            pair.append(line + leaf)
        tl.append(pair[0])
        sl.append(pair[1])
    return "\n".join(tl) + "\n", "\n".join(sl) + "\n"


def gen_segments(rng):
    """family (b): (tab document, space document)"""
    if rng.random() < 0.4:
        return gen_quote_lines(rng)
    leaf = rng.choice(LEAVES).split("\n")
    nseg = rng.randrange(1, 4)
    t0, s0 = gen_line_pair(rng, nseg, leaf[0])
    tl, sl = [t0], [s0]
    cont_t = re.sub(r"[-+*]|\d+[.)]", lambda m: " " * len(m.group()), t0[: len(t0) - len(leaf[0])])
    cont_s = re.sub(r"[-+*]|\d+[.)]", lambda m: " " * len(m.group()), s0[: len(s0) - len(leaf[0])])
    for l in leaf[1:]:
        tl.append(cont_t + l)
        sl.append(cont_s + l)
    for _ in range(rng.randrange(0, 3)):
        # a fresh constructed line after a blank line: its markers are structural, never paragraph text
        a, b = gen_line_pair(rng, rng.randrange(1, 4), rng.choice(["y", "- z", "> r", "# k"]))
        tl += ["", a]
        sl += ["", b]
    end = rng.choice(["\n", ""])
    return "\n".join(tl) + end, "\n".join(sl) + end


def run(ctx) -> int:
    rep: Reporter = ctx["rep"]
    tier, seed, proofs = ctx["tier"], ctx["seed"], ctx["proofs"]
    rng = rng_for("C17", seed)
    from markdown_it.rules_core import normalize
    from markdown_it.rules_core.state_core import StateCore

    # normalize: model vs implementation
    n = 800 if tier == "quick" else 20000
    strs = []
    for k in range(n):
        s = docs.random_doc(rng)
        s = s.replace("\n", rng.choice(["\n", "\r\n", "\r", "\n\r", "\x00\n", "\r\r\n", "\r\x00"])) if k % 2 else reencode(
            s.replace("\r", ""), [rng.randrange(3) for _ in range(5)])
        strs.append(s)
    lines = [sx([23, s]) for s in strs]
    out = run_model(lines)
    disagreements = []
    for s, o in zip(strs, out):
        st = StateCore(s, None, {})
        normalize(st)
        m = unsx(o)
        if not m or tok.s_of(m[0]) != st.src or tok.s_of(m[1]) != st.src:
            disagreements.append({"src": s, "implementation": st.src})
    kn, kbad = run_kernel(list(zip(lines, out))[:: max(1, len(lines) // 40)], "c17")

    # the property on the implementation: encodings
    direct = None
    n_enc = n_tab = 0

    corner = [(configs.STANDARD[ci], d.replace("\r", "")) for d in docs.corner_docs() for ci in (2, 4)]

    def probe_enc(r, count):
        nonlocal n_enc
        for k in range(-len(corner), count):
            if k < 0:
                # the hand-made corner documents first, under the two configurations that switch every rule on
                cfg, src = corner[k]
                n_enc += 1
                d = encoding_property(cfg, src)
                if d:
                    return {"config": cfg, "src": src, **d}
                continue
            cfg = configs.STANDARD[k % len(configs.STANDARD)] if k % 2 else configs.random_config(r)
            src = docs.random_doc(r).replace("\r", "")
            if k % 9 == 0:
                src = src.replace("a", "\x00", 1)
            n_enc += 1
            d = encoding_property(cfg, src)
            if d:
                return {"config": cfg, "src": src, **d}
        return None

    # fixed family, walked first: every sequence of two and three lines (and a sample of four) from a small alphabet of container
    # lines with tabs after / between markers, against its column-expanded twin - so that what one container leaves behind in the
    # line tables (bsCount, tShift, sCount) meets a LATER container that depends on tab columns, at every line offset
    TAB_LINES = ["a", "> a", ">\ta", "> >\ta", ">\t\tcode", "- a", "-\ta", "  >\tb", "", ">", "1.\ta", "\ta", "> - \tb", ">\t> a", "    >\ta",
                 "- >\ta", ">  \t- x"]
    import itertools
    fam = [c for n in (2, 3) for c in itertools.product(TAB_LINES, repeat=n)]
    frng = rng_for("C17", seed, "tabfam")
    fam += [tuple(frng.choice(TAB_LINES) for _ in range(4)) for _ in range(1500 if tier == "quick" else 30000)]
    # all four-line sequences over the nine lines that matter most (two separate containers with a plain line between them need four)
    fam += list(itertools.product(["", "a", "> - \tb", ">\t\tcode", ">  \t- x", "\ta", "-\ta", ">\ta", "> >\ta"], repeat=4))

    def probe_tab(r, count):
        nonlocal n_tab
        mds = [configs.make_md(c) for c in configs.STANDARD[:3]]
        for combo in fam:
            doc = "\n".join(combo) + "\n"
            twin = "\n".join(expand_structural(l) for l in doc.split("\n"))
            if doc == twin:
                continue
            n_tab += 1
            d = tab_property(mds[0], doc, twin, True)
            if d:
                return {"config": configs.STANDARD[0], "loose": True, **d}
        for k in range(count):
            md = mds[k % len(mds)]
            loose = False
            if k % 3 == 2:
                # family (c): tab-rich nested containers; every tab of the structural prefix expanded by column
                # trailing blanks removed: after a marker-like word in running text they would decide a hard break
                doc = "\n".join(l.rstrip(" \t") for l in docs.tabbed_doc(r).split("\n"))
                twin = "\n".join(expand_structural(l) for l in doc.split("\n"))
                loose = True
            elif k % 3 == 1:
                doc, twin = gen_segments(r)
            else:
                doc = docs.random_doc(r).replace("\r", "")
                doc = "\n".join((r.choice(["\t", " \t", "  \t", "\t\t", "   \t"]) + l) if r.random() < 0.3 else l
                                for l in doc.split("\n"))
                twin = "\n".join(expand_leading(l) for l in doc.split("\n"))
            if doc == twin:
                continue
            n_tab += 1
            d = tab_property(md, doc, twin, loose)
            if d:
                return {"config": configs.STANDARD[k % 3], "loose": loose, **d}
        return None

    direct = probe_enc(rng, 500 if tier == "quick" else 20000)
    if direct is None:
        direct = probe_tab(rng, 2500 if tier == "quick" else 150000)

    def search():
        r = rng_for("C17", seed, "search")
        return probe_enc(r, 2000 if tier == "quick" else 50000) or probe_tab(r, 8000 if tier == "quick" else 200000)

    conclude(rep, proofs, direct, "encoding-dependent-parse", disagreements, kbad, search,
             "rules_core.normalize: model and implementation differ")
    cov = proof_cov("C17", proofs, [
        "the parser after normalize is not in the theorem: 'identical normalised source => identical tokens/maps/HTML' holds because the remaining pipeline is a function of state.src (checked on the implementation for every sampled document under all three encodings)",
        "tab half: decided by exploration on the implementation in this run (column arithmetic theorems belong to the block model, DESIGN.md §3 C17)"])
    cov.update({
        "evaluations": len(strs) + n_enc + n_tab, "distinct_nontrivial": len(set(strs)) + n_enc + n_tab,
        "rule": "normalize on generated documents with LF replaced by LF/CRLF/CR/LFCR/NUL mixtures (model: direct definition and regenerated regexes, vs implementation); pipeline: each CR-free document under LF, all-CRLF, all-CR and a random per-line mixture, NUL vs U+FFFD, standard and random configurations, compared on as_dict tokens (maps included), HTML and env references; tabs: (a) documents with tabs injected into line-leading whitespace vs column-exact expansion, (b) constructed lines of 1-3 container segments with tab/space blank runs and continuation lines vs full structural expansion; compared modulo line-leading blanks in verbatim/inline content and titles",
        "samples": [{"src": strs[1][:80]}, {"tab_family_b": list(gen_segments(rng_for('C17', seed, 'sample')))}],
        "traces_validated_against_impl": len(strs), "encoding_documents": n_enc, "tab_pairs": n_tab,
        "in_kernel_cases": kn, "in_kernel_mismatches": len(kbad), "disagreements": len(disagreements),
    })
    return rep.finish("proof", cov, ["inputs of the encoding comparison contain no CR of their own (as the property states)"])


def replay(body) -> int:
    if "tab_doc" in body:
        md = configs.make_md(body.get("config", configs.STANDARD[0]))
        d = tab_property(md, body["tab_doc"], body["space_doc"], body.get("loose", False))
    elif "src" in body and "config" in body:
        d = encoding_property(body["config"], body["src"])
    else:
        print(json.dumps(body, default=str)[:1500])
        return 0
    print("C17 on implementation:", "VIOLATED " + json.dumps(d, default=str)[:1500] if d else "holds")
    return 1 if d else 0
