"""C18 — inline text means the same in every block context; render options are inert.

Proof: Props/C18.v (renderer half: xhtmlOut / breaks / langPrefix / highlight act only in
their documented place, for all token lists).  Correspondence (binding): RendererHTML.render
under all renderer-option combinations vs the chunk model.  Property on the implementation:
(1) parseInline / renderInline vs parse / render on single-paragraph inputs; (2) the same
one-line inline text in paragraph, heading, list item, block quote, table cell; (3) renderer
options leave the token stream untouched and change the HTML only in their place.
(Context half of the theorems belongs to the block model, DESIGN.md §3 C18.)"""
from __future__ import annotations

import copy
import html as htmlmod
import json
import re

from common import (Reporter, conclude, guarded, proof_cov, rng_for, run_kernel, run_model, supported, sx, unsx)
import configs
import docs
import tok


def hl_span(s, lang, attrs):
    return "<i>" + lang + "|" + attrs + "|" + htmlmod.escape(s, quote=True).replace("&#x27;", "'") + "</i>"


def hl_pre(s, lang, attrs):
    return "<pre x>" + htmlmod.escape(s, quote=True).replace("&#x27;", "'") + "</pre>"


HL = {0: None, 1: (lambda s, l, a: ""), 2: hl_span, 3: hl_pre}


def dumps(ts):
    return [t.as_dict() for t in ts]


# ---- (3) renderer options ------------------------------------------------------------

def erase_void(h):
    return h.replace("<br />", "<br>").replace(" />", ">")


def options_property(cfg, src):
    md = configs.make_md(cfg)
    if not supported(md):
        return None
    try:
        base_tokens = guarded(md.parse, src)
    except Exception:  # noqa: BLE001
        return None
    base = dumps(base_tokens)
    o0 = dict(xhtmlOut=False, breaks=False, langPrefix="language-", highlight=None)

    def render(tokens, **kw):
        for k, v in {**o0, **kw}.items():
            md.options[k] = v
        return md.renderer.render(copy.deepcopy(tokens), md.options, {})
    for k, v in (("xhtmlOut", True), ("breaks", True), ("langPrefix", "l-"), ("highlight", hl_span)):
        md.options[k] = v
        try:
            again = dumps(guarded(md.parse, src))
        except Exception as e:  # noqa: BLE001
            return {"what": "parse raised with a renderer-only option set", "option": k, "error": repr(e)}
        md.options[k] = o0[k]
        if again != base:
            return {"what": "a renderer-only option changed the token stream", "option": k}
    h0 = render(base_tokens)
    hx = render(base_tokens, xhtmlOut=True)
    if erase_void(hx) != erase_void(h0):
        return {"what": "xhtmlOut changed more than the spelling of void tags", "plain": h0[:500], "xhtml": hx[:500]}
    # breaks == softbreak rendered as hardbreak, nothing else
    retyped = copy.deepcopy(base_tokens)
    for t in retyped:
        for c in (t.children or []):
            if c.type == "softbreak":
                c.type = "hardbreak"
    hb = render(base_tokens, breaks=True)
    if hb != render(retyped):
        return {"what": "breaks changed more than soft line breaks", "plain": h0[:500], "breaks": hb[:500]}
    hl_ = render(base_tokens, langPrefix="l-")
    cls = re.compile(r'class="[^"]*"')
    if cls.sub("", hl_) != cls.sub("", h0):
        return {"what": "langPrefix changed more than a class value", "plain": h0[:500], "other": hl_[:500]}
    nofence = [t for t in base_tokens if t.type != "fence"]
    for name, fn in (("span", hl_span), ("pre", hl_pre), ("empty", HL[1])):
        if render(nofence, highlight=fn) != render(nofence):
            return {"what": "highlight changed output outside fences", "highlighter": name}
    return None


# ---- (1) parseInline vs paragraph ----------------------------------------------------

def inline_property(cfg, src):
    md = configs.make_md(cfg)
    if not supported(md):
        return None
    try:
        ts = guarded(md.parse, src)
    except Exception:  # noqa: BLE001
        return None
    if not (len(ts) == 3 and ts[0].type == "paragraph_open" and ts[1].type == "inline" and ts[1].content == src.replace(
            "\r\n", "\n").replace("\r", "\n").replace("\x00", "�")):
        return None
    try:
        pi = guarded(md.parseInline, src)
        ri = guarded(md.renderInline, src)
        r = guarded(md.render, src)
    except Exception as e:  # noqa: BLE001
        return {"what": "parseInline/renderInline raised on a single-paragraph input", "error": repr(e)}
    if len(pi) != 1 or pi[0].type != "inline":
        return {"what": "parseInline did not return one inline token"}

    def strip_levels(children):
        return [c.as_dict() for c in children]
    if strip_levels(pi[0].children) != strip_levels(ts[1].children):
        return {"what": "parseInline children differ from the paragraph's children"}
    if r != "<p>" + ri + "</p>\n":
        return {"what": "renderInline is not the paragraph's HTML without <p>", "render": r[:400], "renderInline": ri[:400]}
    return None


# ---- (2) contexts ---------------------------------------------------------------------

SAFE_FRAGS = ["*e*", "**s**", "`c`", "[l](/u \"t\")", "![i](/s)", "&amp;", "&#35;", "\\*", "<b>x</b>", "word", "a b", "_u_",
              "~~d~~", "<http://x.y>", "é", "x-y", "(p)", "\"q\"", "1", "![a&amp;b c](/s)", "![x\\*y z](/s \"t\")",
              "![n ![m&lt;](/q) o](/r)", "[k ![j&#35;j](/p)](/u)"]


def guarded_text(rng):
    n = rng.randrange(1, 6)
    t = "w" + " ".join(rng.choice(SAFE_FRAGS) for _ in range(n))
    return t


def context_property(md, t):
    def inline_of(src, pick):
        ts = md.parse(src)
        for x in ts:
            if x.type == "inline" and pick(x):
                return x
        return None
    ref = md.parseInline(t)[0]
    want = [c.as_dict() for c in ref.children]
    ctxs = {"paragraph": t + "\n", "heading": "# " + t + "\n", "item": "- " + t + "\n", "quote": "> " + t + "\n"}
    if "table" in md.get_active_rules()["block"] and not any(c in t for c in "|\\`"):
        ctxs["cell"] = "| h |\n|---|\n| " + t + " |\n"
    for name, src in ctxs.items():
        tok_ = inline_of(src, (lambda x: x.content == t))
        if tok_ is None:
            return {"what": "context did not hold the text", "context": name, "text": t}

        def relevel(cs, d):
            out = []
            for c in cs:
                dct = c.as_dict()
                out.append(dct)
            return out
        got = relevel(tok_.children, 0)
        if got != want:
            return {"what": "inline tokens differ between contexts", "context": name, "text": t}
    return None


# void tags (hr, br, img) in every structural neighbourhood: directly after the hidden paragraph of a tight
# list item, first / last in containers, adjacent to each other
VOID_DOCS = ["- item\n  ***\n", "1. item\n   ___\n2. next\n", "> - deep\n>   * * *\n", "- a  \n  b\n- ![i](s)\n  ***\n", "***\n- - -\n___\n",
             "- ***\n- x\n  ---\n", "> ***\n\n- x\n\n  ***\n", "a  \nb\\\n![i](s)![j](t)\n***\n", "| a |\n|---|\n| ![i](s) |\n\n***\n",
             "- - a\n    ***\n  - b\n", "1. ![i](s)\n   ***\n   ![j](t)\n"]


def run(ctx) -> int:
    rep: Reporter = ctx["rep"]
    tier, seed, proofs = ctx["tier"], ctx["seed"], ctx["proofs"]
    rng = rng_for("C18", seed)

    # renderer correspondence under all option combinations
    n = 700 if tier == "quick" else 12000
    cases, expect, inputs = [], [], []
    for k in range(n):
        cfg = configs.STANDARD[k % len(configs.STANDARD)] if k % 2 else configs.random_config(rng)
        md = configs.make_md(cfg)
        if not supported(md):
            continue
        src = docs.random_doc(rng) if k % 3 else rng.choice(["```py x y\na<b\n```\n", "    code\n", "a\nb  \nc\\\nd\n", "~~~ &lt;\n~~~\n",
                                                             "![a\nb](c)\n", "***\n"] + VOID_DOCS) + docs.random_doc(rng)
        try:
            ts = guarded(md.parse, src)
        except Exception:  # noqa: BLE001
            continue
        if not tok.encodable(ts):
            continue
        xh, br, lp, hl = rng.random() < .5, rng.random() < .5, rng.choice(["language-", "", "l\"<", "x y"]), rng.randrange(4)
        md.options["xhtmlOut"], md.options["breaks"], md.options["langPrefix"], md.options["highlight"] = xh, br, lp, HL[hl]
        cases.append(sx([20, [[xh, br, lp, hl], tok.enc_tokens(ts)]]))
        t2 = copy.deepcopy(ts)
        try:
            expect.append((md.renderer.render(t2, md.options, {}), [tok.canon_py_token(t) for t in t2]))
        except Exception as e:  # noqa: BLE001
            expect.append((None, type(e).__name__))
        inputs.append({"config": cfg, "src": src, "render_options": [xh, br, lp, hl]})
    out = run_model(cases)
    disagreements = []
    for o, e, inp in zip(out, expect, inputs):
        m = unsx(o)
        ok = (m[0] != 0) if e[0] is None else (m[0] == 0 and tok.s_of(m[1][0]) == e[0]
                                                and [tok.canon_model_token(x) for x in m[1][1]] == e[1])
        if not ok:
            disagreements.append(inp)
    kn, kbad = run_kernel(list(zip(cases, out))[:: max(1, len(cases) // 40)], "c18")

    counts = {"options": 0, "inline": 0, "contexts": 0}

    corner = [(configs.STANDARD[ci], d) for d in docs.corner_docs() for ci in (2, 4)]

    def probe(r, n_opt, n_inl, n_ctx):
        for k in range(-len(corner), n_opt):
            if k < 0:
                cfg, src = corner[k]     # the hand-made corner documents first
            else:
                cfg = configs.STANDARD[k % len(configs.STANDARD)] if k % 2 else configs.random_config(r)
                src = docs.random_doc(r) if k % 4 else r.choice(VOID_DOCS) + (docs.random_doc(r) if k % 8 else "")
            counts["options"] += 1
            d = options_property(cfg, src)
            if d:
                return {"config": cfg, "src": src, "part": "options", **d}
        for k in range(n_inl):
            cfg = configs.STANDARD[k % len(configs.STANDARD)] if k % 2 else configs.random_config(r)
            src = docs.inline_structured(r) if k % 2 else docs.inline_text(r)
            counts["inline"] += 1
            d = inline_property(cfg, src)
            if d:
                return {"config": cfg, "src": src, "part": "inline", **d}
        mds = [configs.make_md(c) for c in configs.STANDARD[:3]]
        for k in range(n_ctx):
            t = guarded_text(r)
            counts["contexts"] += 1
            # the same text several times in one document, too (context = position in a document)
            d = context_property(mds[k % 3], t)
            if d is None:
                md = mds[k % 3]
                one = md.render(t + "\n")
                two = md.render(f"- {t}\n- {t}\n")
                body = one[len("<p>"):-len("</p>\n")]
                if two != f"<ul>\n<li>{body}</li>\n<li>{body}</li>\n</ul>\n":
                    d = {"what": "the same inline text renders differently when it occurs twice in a document",
                         "text": t, "once": one, "twice": two}
            if d:
                return {"config": configs.STANDARD[k % 3], "part": "contexts", **d}
        return None
    q = tier == "quick"
    direct = probe(rng, 250 if q else 6000, 500 if q else 12000, 400 if q else 10000)
    conclude(rep, proofs, direct, "context-or-option-dependence", disagreements, kbad,
             lambda: probe(rng_for("C18", seed, "search"), 1500 if q else 20000, 2000 if q else 30000, 2000 if q else 30000),
             "RendererHTML.render under renderer options: model and implementation differ")
    cov = proof_cov("C18", proofs, ["context half (same inline tokens in paragraph/heading/item/quote/cell; parseInline == paragraph) is decided by exploration on the implementation in this run; its theorems belong to the block model"])
    cov.update({
        "evaluations": len(cases) + sum(counts.values()), "distinct_nontrivial": len(set(cases)) + sum(counts.values()),
        "rule": "renderer: parser-produced streams under standard/random configurations incl. void tags in every structural neighbourhood (after the hidden paragraph of a tight list item, first / last in containers) rendered with random (xhtmlOut, breaks, langPrefix, highlight in {none, returns '', span wrapper, <pre> block}) by implementation and model; options: token stream with each renderer-only option toggled, HTML compared modulo the option's documented place (void tag spelling; softbreak==hardbreak retyping; class value; fence-free stream under 3 highlighters); inline: parseInline/renderInline vs parse/render on single-paragraph inputs; contexts: guarded one-line texts in paragraph, heading, list item, block quote, table cell, and twice in one document",
        "samples": inputs[:2], "traces_validated_against_impl": len(cases), "implementation_probes": counts,
        "in_kernel_cases": kn, "in_kernel_mismatches": len(kbad), "disagreements": len(disagreements),
    })
    return rep.finish("proof", cov, ["guards on t as the property states (starts alphanumerically; no pipe/backslash/backtick for cells)"])


def replay(body) -> int:
    part = body.get("part")
    d = None
    if part == "options":
        d = options_property(body["config"], body["src"])
    elif part == "inline":
        d = inline_property(body["config"], body["src"])
    elif part == "contexts":
        d = context_property(configs.make_md(body["config"]), body["text"])
    print("C18 on implementation:", "VIOLATED " + json.dumps(d, default=str)[:1500] if d else "holds / not replayable")
    return 1 if d else 0
