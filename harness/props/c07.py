"""C07 — top-level blocks are parsed independently: documents compose by concatenation.
Proof: Props/C07.v (the line scanner splits at any point and forgets everything at a line feed).
Correspondence (binding): whole-pipeline model vs implementation on the concatenations.
Property on the implementation: for generated pairs (A, B) meeting the side conditions,
blocks(A + blank + B) = blocks(A) ++ shift(blocks(B)), compared on block tokens and inline
content (children excluded)."""
from __future__ import annotations

import json
import re

from common import Reporter, conclude, guarded, proof_cov, rng_for, supported
import configs
import docs
import pipecheck

B_FAMILIES = [
    "| k | v |\n|---|---|\n| x | y |\n2. second step\n", "| a |\n|---|\n| b |\n-\n", "|a|b|\n|-|-|\n|c|d|\n3) x\n", "a|b\n-|-\nc|d\n*\n",
    "## Todo\n*\n* buy milk\n* call Bob\n", "-\n- b\n", "para\n1.\n2. x\n", "# h\n+\n+ a\n\n+ b\n", "text\n-\n- y\n", "***\n*\n* z\n",
    "> q\n> 2. x\n", "- a\n  - b\n\n  - c\n- d\n", "1. a\n\n   b\n2. c\n", "title\n===\nnext\n---\n", "[ref]: /u\n[bad\n", "[r]: /u\nx\n===\n",
    "para\n    not code\n", "<div>\nx\n\ny\n", "```\nf\n```\n- a\n- b\n", "x\n2. not a list start\n1. but this\n", "> a\nlazy\n- l\n", "- a\n\n\n- b\n",
    # rows whose text occurs in A as well, with empty cells at the pipes (anything remembered per row text would show)
    "| item | cost |\n|------|------|\n|| 3 |\n", "|| total |\n|--|--|\n| b | 2 |\n", "|a|b|\n|-|-|\n||2|\n|3||\n", "||a|\n|-|-|\n|1|2|\n",
    "* a\n\n  para\n* b\n", "-   a\n\n    b\n", "10. a\n11. b\n", "- [x]: /def\n- y\n", "a\n-\nb\n=\n", "> - a\n> - b\n\npara\n", "1. a\n1. b\n   ```\n   c\n",
]
A_FAMILIES = ["Some introduction.\n", "# Title\n", "Notes.\n", "para\nmore\n", "x\n===\n", "- l\n", "> q\n", "[d]: /u\n", "[not a def\n", "    code\n",
              "```\nf\n```\n", "<div>\nh\n", "***\n", "a\n\nb\n\n", "- a\n\n  b\n", "> - a\n", "1. x\n2. y\n", "|a|\n|-|\n|b|\n", "text\n[d]: /u\n", "[d]: /u\ntext\n",
              "| name | qty |\n|------|-----|\n|| 3 |\n", "|| total |\n|--|--|\n| a | 1 |\n\nSome text.\n", "|a|b|\n|-|-|\n||2|\n|3||\n", "||a|\n|-|-|\n|1|2|\n"]


def clean(src):
    src = src.replace("\t", "  ").replace("\r", "").replace("\x00", "?")
    if not src.endswith("\n"):
        src += "\n"
    return src


def blocks(md, src):
    out = []
    for t in guarded(md.parse, src):
        d = t.as_dict()
        d.pop("children", None)
        out.append(d)
    return out


def shift(ds, k):
    out = []
    for d in ds:
        d = dict(d)
        if d.get("map"):
            d["map"] = [d["map"][0] + k, d["map"][1] + k]
        out.append(d)
    return out


LIST_OPEN = ("bullet_list_open", "ordered_list_open")
ITEM_START = re.compile(r"([-+*]|\d{1,9}[.)])( |\n)")
CONTAINER_OPEN = LIST_OPEN + ("list_item_open", "blockquote_open")


def trim(ds, src):
    """The map of a list, list item or block quote may run over the blank lines that follow it when more
    input follows (C03 exempts containers from 'ends on a non-blank line' for this reason): compare
    container maps with trailing blank lines trimmed."""
    lines = src.split("\n")
    out = []
    for d in ds:
        if d["type"] in CONTAINER_OPEN and d.get("map"):
            b, e = d["map"]
            while e > b + 1 and e - 1 < len(lines) and not lines[e - 1].strip(" "):
                e -= 1
            d = dict(d, map=[b, e])
        out.append(d)
    return out


def side_conditions(md, a, b, ta, tb):
    if not b or b[0] in " \n":
        return False
    # A ends closed: a following paragraph separated by a blank line starts a new top-level block
    n = a.count("\n") + 1
    probe = blocks(md, a + "\nzzz\n")
    if (trim(probe[:len(ta)], a + "\nzzz\n") != trim(ta, a) or len(probe) != len(ta) + 3 or probe[len(ta)]["type"] != "paragraph_open"
            or probe[len(ta)]["map"] != [n, n + 1] or probe[len(ta)]["level"] != 0):
        return False
    if not ta or not tb:
        return True
    # not list + list or code + code at the seam
    last_top = [t for t in ta if t["level"] == 0][-1]["type"]
    first_top = tb[0]["type"]
    if last_top.endswith("list_close") and (first_top in LIST_OPEN or ITEM_START.match(b)):
        return False    # B's first line is a list item: it continues A's list whatever B is on its own (e.g. a table header)
    if last_top == "code_block" and first_top == "code_block":
        return False
    return True


def law(md, a, b):
    try:
        ta, tb = blocks(md, a), blocks(md, b)
        if not side_conditions(md, a, b, ta, tb):
            return "skip"
        tab = blocks(md, a + "\n" + b)
    except Exception as e:  # noqa: BLE001
        return {"what": "raised " + type(e).__name__}
    exp = trim(ta + shift(tb, a.count("\n") + 1), a + "\n" + b)
    tab = trim(tab, a + "\n" + b)
    if tab != exp:
        k = next((i for i, (x, y) in enumerate(zip(exp, tab)) if x != y), min(len(exp), len(tab)))
        x = exp[k] if k < len(exp) else None
        y = tab[k] if k < len(tab) else None
        where = "inside A" if k < len(ta) else "inside B"
        diff = [f for f in (x or {}) if (x or {}).get(f) != (y or {}).get(f)] if x and y else []
        return {"what": f"blocks of A + blank + B differ from blocks(A) ++ shifted blocks(B) at token {k} ({where})",
                "expected": {f: x.get(f) for f in ["type"] + diff} if x else None, "got": {f: y.get(f) for f in ["type"] + diff} if y else None,
                "lengths": [len(exp), len(tab)]}
    return None


def gen_doc(rng, fam):
    r = rng.random()
    if r < 0.35:
        d = rng.choice(fam)
        if rng.random() < 0.4:
            d = d + rng.choice(["", "\n"]) + rng.choice(fam)
    elif r < 0.7:
        d = docs.random_doc(rng)
    else:
        d = docs.grammar_doc(rng)
    return clean(d)


def run(ctx) -> int:
    rep: Reporter = ctx["rep"]
    tier, seed, proofs = ctx["tier"], ctx["seed"], ctx["proofs"]
    rng = rng_for("C07", seed)
    q = tier == "quick"
    table_cm = {"preset": "commonmark", "options": {}, "enable": ["table"], "disable": [], "ruler2_off": []}
    fixed = [configs.STANDARD[0], configs.STANDARD[1], table_cm]

    cases = []
    for k in range(400 if q else 8000):
        a, b = gen_doc(rng, A_FAMILIES), gen_doc(rng, B_FAMILIES)
        cfg = fixed[k % 3] if k % 2 else configs.random_config(rng)
        cases.append((cfg, "parse", a + "\n" + b, None))
    n_run, disagreements, kn, kbad, lines = pipecheck.correspond(cases, "c07")
    count = {"pairs": 0, "skipped": 0}

    # every pair of the two family lists, and the hand-made corner documents on either side of three plain neighbours, first
    pairs = [(a, b) for a in A_FAMILIES for b in B_FAMILIES]
    cd = [clean(d) for d in docs.corner_docs()]
    pairs += [(a, b) for a in ("Some introduction.\n", "- l\n", "> q\n") for b in cd]
    pairs += [(a, b) for a in cd for b in ("## Todo\n*\n* buy milk\n", "| k | v |\n|---|---|\n| x | y |\n2. second step\n", "para\n")]

    def probe(r, n):
        for a, b in pairs:
            for cfg in (fixed[1], fixed[2]):
                md = configs.make_md(cfg)
                v = law(md, a, b)
                if v == "skip":
                    count["skipped"] += 1
                    continue
                count["pairs"] += 1
                if v:
                    return {"config": cfg, "A": a, "B": b, **v}
        for k in range(n):
            cfg = fixed[k % 3] if k % 3 else dict(configs.random_config(r), ruler2_off=[])
            md = configs.make_md(cfg)
            if not supported(md):
                continue
            a, b = gen_doc(r, A_FAMILIES), gen_doc(r, B_FAMILIES)
            v = law(md, a, b)
            if v == "skip":
                count["skipped"] += 1
                continue
            count["pairs"] += 1
            if v:
                return {"config": cfg, "A": a, "B": b, **v}
        return None
    direct = probe(rng, 2500 if q else 100000)
    conclude(rep, proofs, direct, "blocks-not-independent", disagreements, kbad,
             lambda: probe(rng_for("C07", seed, "search"), 10000 if q else 150000),
             "whole pipeline on concatenated documents: model and implementation differ")
    cov = proof_cov("C07", proofs, ["concat_law at document level is decided on the implementation in this run; proved: the line tables carry nothing across a line end (partial)"])
    cov.update({
        "evaluations": n_run + count["pairs"], "distinct_nontrivial": len(set(lines)) + count["pairs"],
        "rule": "A, B: generated documents (seed corpus mutations, container x leaf grammar) and hand families stressing what could leak: tables followed directly by list lines, lists with empty first items, failed setext headings / definitions before lists, tables in A and B sharing row texts with empty edge cells, loose/tight lists, lazy lines; tab-free, newline-terminated; side conditions decided as the property states them (A + blank + 'zzz' yields A's blocks then a new paragraph; B starts at column 0; not list+list / code+code at the seam); configurations: commonmark, js-default, commonmark+table, random rule subsets; compared on block tokens incl. maps (shifted; container maps with trailing blank lines trimmed), levels, hidden, markup, info, inline content; children excluded",
        "samples": [{"A": "Notes.\n", "B": B_FAMILIES[4]}], "traces_validated_against_impl": n_run, "implementation_probes": count,
        "in_kernel_cases": kn, "in_kernel_mismatches": len(kbad), "disagreements": len(disagreements),
    })
    return rep.finish("proof", cov, ["side conditions of the property"])


def replay(body) -> int:
    d = None
    if "A" in body and "config" in body:
        d = law(configs.make_md(body["config"]), body["A"], body["B"])
        d = None if d == "skip" else d
    print("C07 on implementation:", "VIOLATED " + json.dumps(d, default=str, ensure_ascii=False)[:1200] if d else "holds / not replayable")
    return 1 if d else 0
