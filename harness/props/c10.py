"""C10 — rule and option switches have exactly their documented effect.
Proof: Props/C10.v (table / strikethrough are inert away from their trigger characters, on the
rule models).  Correspondence (binding): whole-pipeline model vs implementation under random
rule subsets.  Property on the implementation: (1) every token kind needs an enabled producer;
(2) extensions are conservative on inputs without their trigger; (3) inline_definitions /
store_labels only add definition tokens / label metadata; (4) the three option routes are
indistinguishable."""
from __future__ import annotations

import copy
import json
import re

from common import Reporter, conclude, guarded, proof_cov, rng_for, supported
import configs
import docs
import pipecheck

PRODUCES = {
    ("block", "paragraph"): {"paragraph_open", "paragraph_close", "inline"},
    ("block", "heading"): {"heading_open", "heading_close", "inline"},
    ("block", "lheading"): {"heading_open", "heading_close", "inline"},
    ("block", "table"): {"table_open", "table_close", "thead_open", "thead_close", "tbody_open", "tbody_close", "tr_open", "tr_close",
                         "th_open", "th_close", "td_open", "td_close", "inline"},
    ("block", "code"): {"code_block"}, ("block", "fence"): {"fence"},
    ("block", "blockquote"): {"blockquote_open", "blockquote_close"}, ("block", "hr"): {"hr"},
    ("block", "list"): {"bullet_list_open", "bullet_list_close", "ordered_list_open", "ordered_list_close", "list_item_open", "list_item_close"},
    ("block", "reference"): {"definition"}, ("block", "html_block"): {"html_block"},
    ("inline", "text"): {"text"}, ("inline", "newline"): {"softbreak", "hardbreak"}, ("inline", "escape"): {"text", "hardbreak"},
    ("inline", "backticks"): {"code_inline"}, ("inline", "strikethrough"): {"s_open", "s_close", "text"},
    ("inline", "emphasis"): {"em_open", "em_close", "strong_open", "strong_close", "text"},
    ("inline", "link"): {"link_open", "link_close"}, ("inline", "image"): {"image"},
    ("inline", "autolink"): {"link_open", "link_close", "text"}, ("inline", "html_inline"): {"html_inline"}, ("inline", "entity"): {"text"},
}


def allowed_kinds(md):
    a = md.get_active_rules()
    ok = set()
    for (chain, name), kinds in PRODUCES.items():
        if name in a[chain]:
            if name in ("strikethrough", "emphasis") and name not in a["inline2"]:
                kinds = {"text"}
            if name in ("html_block", "html_inline") and not md.options.get("html"):
                continue
            if name == "reference" and not md.options.get("inline_definitions"):
                continue
            ok |= kinds
    return ok


def kinds_of(tokens):
    out = set()
    for t in tokens:
        out.add(t.type)
        if t.children:
            out |= kinds_of(t.children)
    return out


def dump(ts):
    return [t.as_dict() for t in ts]


def strip_defs(ts):
    out = []
    for t in ts:
        if t.type == "definition":
            continue
        d = t.as_dict()

        def unlabel(x):
            if x.get("meta"):
                x["meta"] = {k: v for k, v in x["meta"].items() if k != "label"}
            for c in x.get("children") or []:
                unlabel(c)
        unlabel(d)
        out.append(d)
    return out


def part1(cfg, src):
    md = configs.make_md(cfg)
    if not supported(md):
        return None
    try:
        ts = guarded(md.parse, src)
    except Exception:  # noqa: BLE001
        return None
    extra = kinds_of(ts) - allowed_kinds(md)
    if extra:
        return {"what": "token kinds without an enabled producer", "kinds": sorted(extra),
                "active": md.get_active_rules()}
    return None


def fallback_ok(md):
    """the property's own side condition: the fallback rules that guarantee progress stay on (the merging
    rules fragments_join / text_join may be off - the streams are then compared unmerged)"""
    a = md.get_active_rules()
    return "paragraph" in a["block"] and "text" in a["inline"] and all(x in a["core"] for x in ("normalize", "block", "inline"))


def part2(cfg, src):
    for ext, trigger in (("table", "|"), ("strikethrough", "~~")):
        if trigger in src:
            continue
        on = copy.deepcopy(cfg)
        off = copy.deepcopy(cfg)
        on["enable"] = [x for x in cfg["enable"] if x != ext] + [ext]
        on["disable"] = [x for x in cfg["disable"] if x != ext]
        off["disable"] = [x for x in cfg["disable"] if x != ext] + [ext]
        off["enable"] = [x for x in cfg["enable"] if x != ext]
        m1, m0 = configs.make_md(on), configs.make_md(off)
        if not fallback_ok(m1) or not fallback_ok(m0):
            continue
        try:
            a, b = dump(guarded(m1.parse, src)), dump(guarded(m0.parse, src))
        except Exception:  # noqa: BLE001
            continue
        if a != b:
            return {"what": f"enabling {ext} changed the tokens of an input without {trigger!r}"}
    return None


TAG_NL = re.compile(r"(?<=>)\n")


def part3(cfg, src):
    base = copy.deepcopy(cfg)
    base["options"] = {k: v for k, v in cfg["options"].items() if k not in ("inline_definitions", "store_labels")}
    m0 = configs.make_md(base)
    if not supported(m0):
        return None
    for opts in ({"inline_definitions": True}, {"store_labels": True}, {"inline_definitions": True, "store_labels": True}):
        c1 = copy.deepcopy(base)
        c1["options"].update(opts)
        m1 = configs.make_md(c1)
        e0, e1 = {}, {}
        try:
            t0, t1 = guarded(m0.parse, src, e0), guarded(m1.parse, src, e1)
            h0, h1 = m0.renderer.render(copy.deepcopy(t0), m0.options, e0), m1.renderer.render(copy.deepcopy(t1), m1.options, e1)
        except Exception:  # noqa: BLE001
            continue
        if strip_defs(t0) != strip_defs(t1):
            return {"what": "option changed tokens other than definition tokens / label metadata", "options": opts}
        if e0 != e1:
            return {"what": "option changed env", "options": opts}
        if "inline_definitions" not in opts and dump(t0) != [d for d in dump(t1)] and strip_defs(t0) != strip_defs(t1):
            return {"what": "store_labels changed tokens", "options": opts}
        if TAG_NL.sub("", h0) != TAG_NL.sub("", h1):
            return {"what": "option changed the rendered HTML (beyond line breaks after tags)", "options": opts, "without": h0[:300], "with": h1[:300]}
    return None


ROUTE_OPTS = [("html", True), ("html", False), ("typographer", True), ("breaks", True), ("xhtmlOut", False), ("xhtmlOut", True),
              ("langPrefix", "x-"), ("quotes", "«»‹›"), ("maxNesting", 2), ("inline_definitions", True), ("store_labels", True)]


# attribute access is documented for the nine core options only (OptionsDict docstring); store_labels and
# inline_definitions have the constructor and item routes
ATTR_OPTIONS = {"maxNesting", "html", "linkify", "typographer", "quotes", "xhtmlOut", "breaks", "langPrefix", "highlight"}


def part4(preset, src, k, v):
    from markdown_it import MarkdownIt
    a = MarkdownIt(preset, {k: v, "linkify": False})
    b = MarkdownIt(preset, {"linkify": False})
    b.options[k] = v
    routes = [a, b]
    if k in ATTR_OPTIONS:
        c = MarkdownIt(preset, {"linkify": False})
        setattr(c.options, k, v)
        routes.append(c)
    res = []
    for md in routes:
        try:
            res.append((dump(guarded(md.parse, src)), guarded(md.render, src), md.options[k], getattr(md.options, k, None), md.options.get(k)))
        except Exception as e:  # noqa: BLE001
            res.append(("exc", type(e).__name__))
    if any(r != res[0] for r in res):
        which = "item assignment" if res[0] != res[1] else "attribute assignment"
        return {"what": f"option {k}={v!r} set by {which} behaves differently from the constructor route", "preset": preset}
    return None


ALL_DOC = ("# T\n\n*a* **b** `c` [l](http://x.y \"t\") ![i](s) <b>h</b> <http://a.b> &amp; \\* ~~s~~\n\n- i1\n- i2\n\n> q\n\n    code\n\n"
           "```py\nf\n```\n\n| a | b |\n|---|---|\n| 1 | 2 |\n\ntitle\n===\n\n***\n\n<div>x</div>\n\n[r]: /u\n\n[r] a  \nb\n")


def part5():
    """kinds need a producer in the configuration currently in force, however it was reached: after reset_rules
    blocks, a second configure, enableOnly on a ruler, enable / disable after earlier parses"""
    from markdown_it import MarkdownIt

    def bad(md, how):
        if not supported(md):
            return None
        try:
            ts = guarded(md.parse, ALL_DOC)
        except Exception:  # noqa: BLE001
            return None
        extra = kinds_of(ts) - allowed_kinds(md)
        if extra:
            return {"what": "token kinds without an enabled producer after: " + how, "kinds": sorted(extra), "active": md.get_active_rules()}
        return None
    for preset in ("commonmark", "js-default", "zero"):
        def fresh():
            md = MarkdownIt(preset, {"linkify": False})
            md.parse(ALL_DOC)
            return md
        md = fresh()
        with md.reset_rules():
            md.enable(["table", "strikethrough", "emphasis", "heading", "list"])
            md.parse(ALL_DOC)
        d = bad(md, f"{preset}: parse; with reset_rules(): enable(...); parse")
        if d:
            return d
        md = fresh()
        md.configure("zero")
        d = bad(md, f"{preset}: parse; configure('zero')")
        if d:
            return d
        md = fresh()
        md.block.ruler.enableOnly(["paragraph"])
        md.inline.ruler.enableOnly(["text"])
        d = bad(md, f"{preset}: parse; block.ruler.enableOnly(['paragraph']); inline.ruler.enableOnly(['text'])")
        if d:
            return d
        for name in ("table", "emphasis", "blockquote", "code", "backticks", "link", "heading", "fence", "html_block", "entity"):
            md = fresh()
            try:
                md.enable(name)
                md.parse(ALL_DOC)
                md.disable(name)
            except Exception:  # noqa: BLE001
                continue
            d = bad(md, f"{preset}: parse; enable({name!r}); parse; disable({name!r})")
            if d:
                return d
        md = fresh()
        try:
            md.inline.ruler.enableOnly(["no_such_rule"], True)
        except Exception:  # noqa: BLE001
            pass
        d = None if not supported(md) else bad(md, f"{preset}: parse; inline.ruler.enableOnly(['no_such_rule'], True)")
        if d:
            return d
    return None


def run(ctx) -> int:
    rep: Reporter = ctx["rep"]
    tier, seed, proofs = ctx["tier"], ctx["seed"], ctx["proofs"]
    rng = rng_for("C10", seed)
    q = tier == "quick"
    cases = [(dict(configs.random_config(rng), ruler2_off=[]), "parse", docs.random_doc(rng), None) for _ in range(400 if q else 8000)]
    n_run, disagreements, kn, kbad, lines = pipecheck.correspond(cases, "c10")
    count = {"kinds": 0, "conservative": 0, "definitions": 0, "routes": 0, "histories": 48}

    def probe(r, scale):
        # the hand-made corner documents first: kinds under each standard configuration, the extensions' conservativity on their
        # trigger-free forms, the definition options
        for cd in docs.corner_docs():
            for ci in range(len(configs.STANDARD)):
                cfg = dict(configs.STANDARD[ci], ruler2_off=[])
                count["kinds"] += 1
                d = part1(cfg, cd)
                if d:
                    return {"config": cfg, "src": cd, "part": 1, **d}
            cfg = dict(configs.STANDARD[2], ruler2_off=[])
            src2 = cd.replace("|", "/").replace("~~", "~")
            count["conservative"] += 1
            d = part2(cfg, src2)
            if d:
                return {"config": cfg, "src": src2, "part": 2, **d}
            count["definitions"] += 1
            d = part3(cfg, cd)
            if d:
                return {"config": cfg, "src": cd, "part": 3, **d}
        for k in range(int(700 * scale)):
            cfg = dict(configs.random_config(r), ruler2_off=[])
            src = docs.random_doc(r)
            count["kinds"] += 1
            d = part1(cfg, src)
            if d:
                return {"config": cfg, "src": src, "part": 1, **d}
        for k in range(int(500 * scale)):
            cfg = dict(configs.random_config(r), ruler2_off=[])
            src = docs.random_doc(r)
            if k % 2:
                src = src.replace("|", "/").replace("~~", "~")
                src += r.choice(["x\nfoo\n---\n", "- item\n  cont\n  :-:\n", "a\n-\n", "> q\n> :--\n", "a ~ b ~x~ `~~`?\n".replace("~~", "~")])
            if k % 4 == 3:
                # the merging rules off: whatever an extension's tokenizer pushes stays visible as a token of its own
                cfg = dict(cfg, ruler2_off=["fragments_join"], disable=[x for x in cfg["disable"] if x != "text_join"] + ["text_join"],
                           enable=[x for x in cfg["enable"] if x != "text_join"])
                src = r.choice(["a~\n", "[label~](/url) tail\n", "> quoted~\n", "*em*~\n", "# h~\n", "a ~\n~ b\n", "x|\n"]) + (src if k % 8 == 3 else "")
            count["conservative"] += 1
            d = part2(cfg, src)
            if d:
                return {"config": cfg, "src": src, "part": 2, **d}
        for k in range(int(400 * scale)):
            cfg = dict(configs.random_config(r), ruler2_off=[])
            src = r.choice(["[a]: /u 't'\n\n[a] ![b][a]\n", "[x]: <y>\n[x]: /dup\n\n> [z]: /q\n> [z] [x]\n", "- [r]: /u\n- [l][r]\n"]) + docs.random_doc(r)
            count["definitions"] += 1
            d = part3(cfg, src)
            if d:
                return {"config": cfg, "src": src, "part": 3, **d}
        for k in range(int(120 * scale)):
            preset = r.choice(configs.PRESETS)
            kk, v = r.choice(ROUTE_OPTS)
            src = r.choice(["<div>block</div>\n\ntext with <b>inline</b> html \"q\" -- a\nb\n\n```py\nc\n```\n\n[" * 1 + "r]: /u\n\n" + "[" * 3 + "deep]]]\n", docs.random_doc(r)])
            count["routes"] += 1
            d = part4(preset, src, kk, v)
            if d:
                return {"src": src, "part": 4, **d}
        return None
    direct = part5()
    if direct is None:
        direct = probe(rng, 1 if q else 20)
    conclude(rep, proofs, direct, "switch-effect", disagreements, kbad,
             lambda: probe(rng_for("C10", seed, "search"), 4 if q else 40),
             "whole pipeline under random rule subsets: model and implementation differ")
    cov = proof_cov("C10", proofs, ["kinds_need_producer, false_rule_removable, definitions_only_add and the OptionsDict routes are decided on the implementation in this run; proved so far: the rule-level inertness lemmas (partial)"])
    cov.update({
        "evaluations": n_run + sum(count.values()), "distinct_nontrivial": len(set(lines)) + sum(count.values()),
        "rule": "random rule subsets from each preset (block, inline, core optional rules on/off) x generated documents: (1) token kinds vs the producer map of the enabled rules (html rules only with options.html, ruler2 partners), (2) table / strikethrough on vs off on inputs without '|' / '~~' incl. paragraph + delimiter-row-like lines, (3) inline_definitions / store_labels on vs off: tokens modulo definition tokens and label meta, env, HTML modulo line breaks after tags, (4) each option by constructor, item assignment, attribute assignment, (5) kinds vs producers after management histories on an instance that has already parsed (reset_rules blocks, second configure, ruler.enableOnly, enable/disable)",
        "samples": [{"src": cases[0][2], "config": cases[0][0]}], "traces_validated_against_impl": n_run, "implementation_probes": count,
        "in_kernel_cases": kn, "in_kernel_mismatches": len(kbad), "disagreements": len(disagreements),
    })
    return rep.finish("proof", cov, ["supported configurations"])


def replay(body) -> int:
    part = body.get("part")
    d = None
    if part == 1:
        d = part1(body["config"], body["src"])
    elif part == 2:
        d = part2(body["config"], body["src"])
    elif part == 3:
        d = part3(body["config"], body["src"])
    print("C10 on implementation:", "VIOLATED " + json.dumps(d, default=str)[:1200] if d else "holds / not replayable")
    return 1 if d else 0
