"""C02 — token streams are well nested, correctly levelled and tree-constructible.
Proof: Props/C02.v (stream-level theorems).  Correspondence (binding): whole-pipeline model vs
implementation on token dicts (levels, nesting, types, children included).  Property on the
implementation: the well-formedness predicate on every parse, under all supported
configurations, incl. delimiter-heavy inline content."""
import docs
import parserprop
import propcheck

DELIMS = ["*", "**", "_", "__", "***", "~~", "~~~", "~", "[", "]", "(/u)", "![", "`", "``", " ", "a", "b c", "<b>", "</b>", "<http://x.y>", "\\*", "&amp;", "\n"]


def delim_doc(rng):
    inline = "".join(rng.choice(DELIMS) for _ in range(rng.randrange(2, 14)))
    wrap = rng.choice(["{}", "# {}", "- {}", "> {}", "| {} | x |\n|---|---|\n| {} | y |", "[{}](/u)", "![{}](/i)", "*{}*", "- a\n- {}\n\n  c", "1. {}\n2. z"])
    return wrap.replace("{}", inline) + "\n"


def pair_doc(rng):
    """delimiter runs of every length 1-5 opening and closing around text, inside and around links / images / emphasis"""
    ch = rng.choice("~~~*_")
    o, c = ch * rng.randrange(1, 6), ch * rng.randrange(1, 6)
    x = rng.choice(["a", "a b", "x*y", "`c`", "[l](/v)", "![i](/s)", "a~b", "<b>"])
    core = o + x + c
    shapes = ["[{}](/u)", "![{}](/u)", "[{}][r]\n\n[r]: /u", "*{}*", "**{}**", "~~{}~~", "text {} more", "{}{}", "[{} tail](/u)", "[head {}](/u)",
              "~~[x {}](/u)~~ more", "_{}_ [{}](/u)", "| {} |\n|---|", "# {}", "[[{}](/a)](/b)"]
    return rng.choice(shapes).replace("{}", core) + "\n"


def nest_doc(rng):
    """escapes, entities and delimiter pairs inside descriptions / link texts nested two and three deep"""
    inner = rng.choice(["in\\*ner &amp; x", "a \\_b\\_ &lt;", "*e* \\` &#35;", "~~s~~ \\[", "p &copy; \\!q", "x"])
    shapes = ["![outer ![{}](a) text](b)", "![o [l ![{}](a)](c) t](b)", "![a ![b ![{}](x)](y)](z)", "[t ![i ![{}](p)](q)](r)",
              "[*e [{}](/in)*](/out)", "[~~{}~~](/u)", "[_{}_](/u)", "# [{}](/u)", "| [*{}*](/u) |\n|---|", "> ![q ![{}](a)](b)"]
    return rng.choice(shapes).replace("{}", inner) + "\n"


def extra_doc(rng):
    r = rng.random()
    if r > 0.85:
        return rng.choice(["{}", "# {}", "- {}", "> {}", "[{}](/u)", "| {} |\n|---|"]).replace("{}", docs.flanking_soup(rng)) + "\n"
    return pair_doc(rng) if r < 0.4 else nest_doc(rng) if r < 0.6 else delim_doc(rng)


def pred(ts, nsrc, env):
    return propcheck.c02(ts)


def run(ctx):
    return parserprop.run_generic(
        ctx, "C02", "malformed-token-stream", pred, extra_doc,
        ["producer side (every block / inline rule pushes balanced, correctly levelled segments; delimiter pairs never cross) is not yet a theorem: it is carried by the pipeline correspondence and by the predicate evaluated on the implementation in this run (partial)"],
        "correspondence and predicate on: seed corpus, mutations, container x leaf grammar, malformed stream, and delimiter pairs of every run length 1-5 inside and around links / images / emphasis / cells, images / links nested two and three deep with escapes, entities and pairs in the innermost description, delimiter soups (runs of * _ ~ brackets backticks links images in paragraph/heading/list/quote/table/link/image contexts) x standard and random configurations (rule subsets; rules2 all on)",
        fixed_extra=docs.delim_run_family())


def replay(body):
    return parserprop.replay_generic(body, pred)
