"""C02 — token streams are well nested, correctly levelled and tree-constructible.
Proof: Props/C02.v (stream-level theorems).  Correspondence (binding): whole-pipeline model vs
implementation on token dicts (levels, nesting, types, children included).  Property on the
implementation: the well-formedness predicate on every parse, under all supported
configurations, incl. delimiter-heavy inline content."""
import docs
import parserprop
import propcheck

DELIMS = ["*", "**", "_", "__", "***", "~~", "~~~", "~", "[", "]", "(/u)", "![", "`", "``", " ", "a", "b c", "<b>", "</b>", "<http://x.y>", "\\*", "&amp;", "\n"]


def delim_doc(rng):
    inline = "".join(rng.choice(DELIMS) for _ in range(rng.randrange(2, 14)))
    wrap = rng.choice(["{}", "# {}", "- {}", "> {}", "| {} | x |\n|---|---|\n| {} | y |", "[{}](/u)", "![{}](/i)", "*{}*", "- a\n- {}\n\n  c", "1. {}\n2. z"])
    return wrap.replace("{}", inline) + "\n"


def pred(ts, nsrc, env):
    return propcheck.c02(ts)


def run(ctx):
    return parserprop.run_generic(
        ctx, "C02", "malformed-token-stream", pred, delim_doc,
        ["producer side (every block / inline rule pushes balanced, correctly levelled segments; delimiter pairs never cross) is not yet a theorem: it is carried by the pipeline correspondence and by the predicate evaluated on the implementation in this run (partial)"],
        "correspondence and predicate on: seed corpus, mutations, container x leaf grammar, malformed stream, and delimiter soups (runs of * _ ~ brackets backticks links images in paragraph/heading/list/quote/table/link/image contexts) x standard and random configurations (rule subsets; rules2 all on)")


def replay(body):
    return parserprop.replay_generic(body, pred)
