"""C15 — tokens survive serialisation and tree conversion; rendering is repeatable.

Proof: Props/C15.v (dict round trip for all tokens and all flag combinations; tree
round trip; render fixed point).  Correspondence (function level, binding): as_dict /
from_dict, SyntaxTreeNode build / to_tokens / walk, RendererHTML.render on token streams
produced by the real parser under random configurations.  The property itself is then
evaluated on the implementation for every stream."""
from __future__ import annotations

import copy
import json

from common import (Reporter, conclude, guarded, proof_cov, rng_for, run_kernel, run_model, supported, sx, unsx)
import configs
import docs
import tok


def enc_dval_py(v):
    from markdown_it.token import Token
    if v is None:
        return [0]
    if isinstance(v, bool):
        return [1, int(v)]
    if isinstance(v, int):
        return [2, v]
    if isinstance(v, str):
        return [3, [ord(c) for c in v]]
    if isinstance(v, Token):
        return [6, json.loads(json.dumps(tok.enc_token(v)))]
    if isinstance(v, (list, tuple)):
        return [4, [enc_dval_py(x) for x in v]]
    if isinstance(v, dict):
        return [5, [[[ord(c) for c in k], enc_dval_py(x)] for k, x in v.items()]]
    raise TypeError(type(v))


def intify(x):
    """harness-side encoding (strings as str) -> what unsx returns (lists of ints)"""
    if isinstance(x, bool):
        return int(x)
    if isinstance(x, str):
        return [ord(c) for c in x]
    if isinstance(x, (list, tuple)):
        return [intify(y) for y in x]
    return x


def tree_consistency(tokens):
    """None or a description: tree round trip, walk order, parent/child/sibling links"""
    from markdown_it.tree import SyntaxTreeNode
    try:
        root = SyntaxTreeNode(tokens)
    except Exception as e:  # noqa: BLE001
        return {"what": "SyntaxTreeNode could not be built from a parser-produced stream", "error": repr(e)}
    back = root.to_tokens()
    if len(back) != len(tokens) or any(a is not b for a, b in zip(back, tokens)):
        return {"what": "to_tokens() is not the identical token sequence"}

    def stream_order(ts):
        out = []
        for t in ts:
            if t.nesting == -1:
                continue
            out.append(t)
            if t.children:
                out += stream_order(t.children)
        return out
    walked = [n.token if n.token is not None else n.nester_tokens.opening for n in root.walk(include_self=False)]
    exp = stream_order(tokens)
    if len(walked) != len(exp) or any(a is not b for a, b in zip(walked, exp)):
        return {"what": "walk() does not follow stream order"}
    for n in root.walk():
        for k, c in enumerate(n.children):
            if c.parent is not n:
                return {"what": "child.parent is not the node that lists it"}
            sib = c.siblings
            if list(sib) != list(n.children):
                return {"what": "siblings differ from parent.children"}
            if c.previous_sibling is not (n.children[k - 1] if k else None):
                return {"what": "previous_sibling inconsistent"}
            if c.next_sibling is not (n.children[k + 1] if k + 1 < len(n.children) else None):
                return {"what": "next_sibling inconsistent"}
    return None


def direct_property(md, src):
    """None or a violation of C15 on the implementation for this input"""
    from markdown_it.token import Token
    try:
        tokens = guarded(md.parse, src)
    except Exception:  # noqa: BLE001
        return None  # totality is C01
    for children in (True, False):
        for up in (True, False):
            for t in tokens:
                try:
                    t2 = Token.from_dict(t.as_dict(children=children, as_upstream=up))
                except Exception as e:  # noqa: BLE001
                    return {"what": "from_dict(as_dict()) raised", "children": children, "as_upstream": up,
                            "error": repr(e), "token": t.type}
                if t2 != t:
                    return {"what": "from_dict(as_dict()) is not an equal token", "children": children, "as_upstream": up,
                            "token": t.as_dict(), "back": t2.as_dict()}
    back = [Token.from_dict(t.as_dict()) for t in tokens]
    env = {}
    try:
        h0 = md.renderer.render(copy.deepcopy(tokens), md.options, env)
        if md.renderer.render(back, md.options, env) != h0:
            return {"what": "round-tripped stream renders differently"}
        h1 = md.renderer.render(tokens, md.options, env)
        snap = [t.as_dict() for t in tokens]
        h2 = md.renderer.render(tokens, md.options, env)
        if h1 != h2 or h1 != h0:
            return {"what": "rendering the same stream twice gives different output", "first": h1, "second": h2}
        if [t.as_dict() for t in tokens] != snap:
            return {"what": "second render changed the tokens"}
        # the same stream as a plugin's core rule would leave it: attributes on the tokens (line numbers, classes)
        deco = copy.deepcopy(tokens)
        n = 0
        for t in deco:
            for x in [t] + list(t.children or []):
                if x.type not in ("text", "inline", "softbreak", "hardbreak") and x.nesting >= 0:
                    x.attrSet("data-line", str(n))
                    if n % 2:
                        x.attrJoin("class", "u")
                    n += 1
        d1 = md.renderer.render(deco, md.options, env)
        snap = [t.as_dict() for t in deco]
        d2 = md.renderer.render(deco, md.options, env)
        if d1 != d2:
            return {"what": "rendering the same stream (tokens carrying user attributes) twice gives different output", "first": d1[:600], "second": d2[:600]}
        if [t.as_dict() for t in deco] != snap:
            return {"what": "second render changed the tokens (tokens carrying user attributes)"}
    except Exception as e:  # noqa: BLE001
        return {"what": "render raised", "error": repr(e)}
    v = tree_consistency(tokens)
    if v is None:
        for t in tokens:
            if t.children:
                v = tree_consistency(t.children)
                if v:
                    break
    return v


TREE_CONFIGS = [
    {"preset": "commonmark", "options": {}, "enable": [], "disable": [], "ruler2_off": ["fragments_join"]},
    {"preset": "js-default", "options": {"linkify": False}, "enable": [], "disable": [], "ruler2_off": ["fragments_join"]},
    {"preset": "commonmark", "options": {}, "enable": ["strikethrough", "table"], "disable": [], "ruler2_off": []},
]
TREE_DOCS = [
    "*a **b** c*\n", "*(*foo*)*\n", "**bold with [a *link*](/u) inside**\n", "> - item with ~~struck *em*~~ text\n",
    "***a** b*\n", "*a [b **c** d](/u) e*\n", "- *x **y** z*\n  1. **p *q* r**\n", "|h|\n|-|\n|*a **b** c*|\n",
    "# *a **b***\n\n> *c **d** e*\n",
]


def run(ctx) -> int:
    rep: Reporter = ctx["rep"]
    tier, seed, proofs = ctx["tier"], ctx["seed"], ctx["proofs"]
    rng = rng_for("C15", seed)
    n = 700 if tier == "quick" else 12000
    from markdown_it.token import Token
    from markdown_it.tree import SyntaxTreeNode

    cases, expect, inputs = [], [], []
    direct = None
    kinds = {"dict": 0, "tree": 0, "render": 0}
    # fixed corpus, run first: streams whose level fields are NOT consistent with their nesting
    # (fragments_join is what recomputes inline levels; with it off, nested pairs share a level), and
    # deep well-levelled ones - the tree builder must pair by nesting there
    fixed = [(c, d) for c in TREE_CONFIGS for d in TREE_DOCS] + [(configs.STANDARD[ci], d) for d in docs.corner_docs() for ci in (2, 4)]
    for k in range(-len(fixed), n):
        if k < 0:
            cfg, src = fixed[k + len(fixed)]
        else:
            cfg = configs.STANDARD[k % len(configs.STANDARD)] if k % 3 == 0 else configs.random_config(rng)
        cfg = dict(cfg, options={kk: v for kk, v in cfg["options"].items() if kk != "highlight"})
        md = configs.make_md(cfg)
        if not supported(md):
            continue
        if k >= 0:
            src = docs.random_doc(rng)
        if k >= 0 and k % 7 == 0:
            src = rng.choice(["#\n", "## ##\n", "|a|b|\n|-|-|\n|![i *j*](u)||\n", "*a **b** c*\n", "***x***\n", "1. x\n7. y\n",
                              "![a ![b](c) d](e \"t\")\n", "[r]: /u 'T'\n\n[r]\n"]) + src
        if direct is None or k < 0:
            d = direct_property(md, src)
            if d:
                direct = {"config": cfg, "src": src, **d}
        try:
            tokens = guarded(md.parse, src)
        except Exception:  # noqa: BLE001
            continue
        if not tok.encodable(tokens):
            continue
        enc = tok.enc_tokens(tokens)
        which = 1 if k < 0 else k % 3
        if which == 0:
            c, u = (k // 3) % 2 == 0, (k // 6) % 2 == 0
            cases.append(sx([21, [c, u, enc]]))
            exp = []
            for t in tokens:
                try:
                    d = t.as_dict(children=c, as_upstream=u)
                    ok = 1 if Token.from_dict(t.as_dict(children=c, as_upstream=u)) == t else 0
                    exp.append([ok, intify(enc_dval_py(d))])
                except Exception:  # noqa: BLE001
                    exp.append([-1])
            expect.append(exp)
            kinds["dict"] += 1
        elif which == 1:
            cases.append(sx([22, enc]))
            try:
                root = SyntaxTreeNode(tokens)
                expect.append(("tree", [tok.canon_py_token(t) for t in root.to_tokens()],
                               [nd.type for nd in root.walk(include_self=False)]))
            except ValueError:
                expect.append(("tree", None, None))
            kinds["tree"] += 1
        else:
            xh, br, lp = rng.random() < .5, rng.random() < .5, rng.choice(["language-", "", "l\"<"])
            md.options["xhtmlOut"], md.options["breaks"], md.options["langPrefix"] = xh, br, lp
            cases.append(sx([20, [[xh, br, lp, 0], enc]]))
            ts = copy.deepcopy(tokens)
            try:
                html = md.renderer.render(ts, md.options, {})
                expect.append(("render", html, [tok.canon_py_token(t) for t in ts]))
            except Exception as e:  # noqa: BLE001
                expect.append(("render", None, type(e).__name__))
            kinds["render"] += 1
        inputs.append({"config": cfg, "src": src})
    out = run_model(cases)
    disagreements = []
    for c, o, e, inp in zip(cases, out, expect, inputs):
        m = unsx(o)
        ok = True
        if isinstance(e, list):  # dict
            ok = m == e
        elif e[0] == "tree":
            if e[1] is None:
                ok = m[0] != 0
            else:
                ok = (m[0] == 0 and [tok.canon_model_token(x) for x in m[1][1]] == e[1]
                      and [w[:-5] if w.endswith("_open") else w for w in (tok.s_of(x) for x in m[1][2])] == e[2])
        else:
            if e[1] is None:
                ok = m[0] != 0
            else:
                ok = m[0] == 0 and tok.s_of(m[1][0]) == e[1] and [tok.canon_model_token(x) for x in m[1][1]] == e[2]
        if not ok:
            disagreements.append(inp)
    kn, kbad = run_kernel(list(zip(cases, out))[:: max(1, len(cases) // 40)], "c15")

    def search():
        srng = rng_for("C15", seed, "search")
        for _ in range(3000 if tier == "quick" else 60000):
            cfg = configs.random_config(srng)
            md = configs.make_md(cfg)
            if not supported(md):
                continue
            src = docs.random_doc(srng)
            d = direct_property(md, src)
            if d:
                return {"config": cfg, "src": src, **d}
        return None

    conclude(rep, proofs, direct, "token-roundtrip", disagreements, kbad, search,
             "as_dict/from_dict, SyntaxTreeNode, RendererHTML.render: model and implementation differ on a parser-produced stream")
    cov = proof_cov("C15", proofs, ["Token/SyntaxTreeNode/RendererHTML modelled by hand (Model/Token.v, Tree.v, Render.v)",
                                    "attrs dict keys unique (a Python dict invariant) is a hypothesis of the round-trip theorem"])
    cov.update({
        "evaluations": len(cases), "distinct_nontrivial": len(set(cases)),
        "rule": "token streams produced by the real parser from generated documents (spec/fixture seeds, mutations, container x leaf grammar, malformed) under standard and random configurations (random rule subsets incl. rules2, options); each stream goes through one of: as_dict/from_dict in one of the 4 flag combinations, SyntaxTreeNode build/to_tokens/walk, render under random renderer options. distinct by wire text; streams are non-trivial by construction (at least one token)",
        "samples": inputs[:2], "traces_validated_against_impl": len(cases), "by_kind": kinds,
        "in_kernel_cases": kn, "in_kernel_mismatches": len(kbad), "disagreements": len(disagreements),
    })
    return rep.finish("proof", cov, ["meta values are strings (parser-produced meta)"])


def replay(body) -> int:
    if "config" in body and "src" in body:
        md = configs.make_md(body["config"])
        d = direct_property(md, body["src"])
        print("C15 on implementation:", "VIOLATED " + json.dumps(d, default=str)[:1500] if d else "holds")
        return 1 if d else 0
    print(json.dumps(body, default=str)[:1500])
    return 0
