"""C08 — verbatim content and recorded markup come from the source, unaltered.
Proof: Props/C08.v (getLines verbatim for every state; code / fence / html_block content; fence, heading, hr markup; code spans).  Correspondence (binding):
whole-pipeline model vs implementation on token dicts (content, markup, info, attrs, maps).
Property on the implementation: the verbatim predicate on every parse."""
import docs
import parserprop
import propcheck

PRE = ["> ", ">", "- ", "-\t", "1. ", "1.\t", "  ", "\t", " \t", "", "", "   > ", ">\t"]
LEAF = ["```\nfoo\n  bar\n\tbaz\n```", "~~~ info str\n x\n\n y\n~~~~", "    code\n\tmore\n\n    end", "<pre>\n x\n\n</pre>", "<div>\n  a\n\tb",
        "---", "***", "- - -", "_ _ _ _", "* * *", "-\t-\t-", "# h #", "###### six", "x\n===", "y\n---", "`a`", "`` `b ``", "` `", "`   `", "`  c  `",
        "` \xa0 `", "x` \n `", "7. s", "123456789) n", "+ p", "````\n```\n````", "```\n```",
        # blanks other than space / tab at the start of verbatim lines are content, not indentation
        "  ```py\n \xa0x = 1\n  \x0cy\n  ```", "   ~~~\n\x0b v\n \u2003w\n   ~~~", "    code\n    \xa0z\n     \u3000q",
        "<div>\n \x0cp\n\xa0\xa0r\n</div>", "\xa0\xa0\xa0\xa0not code", " \x1c#\u2028 h"]


def _wrap(pre, leaf):
    cont = "".join(" " if c not in ">\t" else c for c in pre)
    ls = leaf.split("\n")
    return "\n".join([pre + ls[0]] + [cont + ln for ln in ls[1:]]) + "\n"


# fixed corpus, walked first: every pair of container prefixes (tabs at every column) around the
# leaves whose content depends on the column arithmetic
_TABLEAF = ["```\n\tcode\n  x\n```", "\tcode\n\t\tmore", "~~~\n \ty\n~~~"]
_P = [p for p in dict.fromkeys(PRE) if p]
# ordered markers whose digits are not the canonical spelling of their value: info is the digits written
_ORDERED = ["007. james\n008. bond\n", "01) a\n02) b\n", "000000003. z\n", "> 00. a\n> 01. b\n", "- 010. x\n  011. y\n",
            "1. a\n\n   09. inner\n   10. more\n", "0. zero\n1. one\n", "text\n\n0001) only\n"]
# quoted verbatim blocks whose lines spell the quote marker differently (different widths, tabs after the marker): the
# column offset of a line is a per-line quantity (bsCount[line]), not that of the first line of the block
_QPRE = [">", "> ", ">\t", " >", "  >\t", "   > ", " >\t "]
_VARQ = []
for _lf in ["    a\n\t\tb\n \t c", "```\n\t\ty\n\t\tx = 1\n```", "\tcode\n    more\n\t  end", "<pre>\n\t x\n  \ty\n</pre>"]:
    _ls = _lf.split("\n")
    for _k in range(len(_QPRE)):
        _VARQ.append("\n".join(_QPRE[(_k + 3 * _j) % len(_QPRE)] + _l for _j, _l in enumerate(_ls)) + "\n")
_VARQ += ["  >\t    a\n>\t\tb\n", ">     a\n  >\t \t b\n", ">  ```\n>\t\ty\n  >\t\tx = 1\n>  ```\n"]
FIXED = _ORDERED + _VARQ + [_wrap(a + b, lf) for lf in _TABLEAF for a in [""] + _P for b in _P]
_state = {"i": 0}


def verb_doc(rng):
    i = _state["i"]
    _state["i"] += 1
    if i % 2 == 0 and i // 2 < len(FIXED):
        return FIXED[i // 2]
    lines = []
    for _ in range(rng.randrange(1, 4)):
        pre = "".join(rng.choice(PRE) for _ in range(rng.choice([0, 0, 1, 1, 2])))
        cont = "".join(" " if c not in ">\t" else c for c in pre)
        first = True
        for ln in rng.choice(LEAF).split("\n"):
            lines.append((pre if first else rng.choice([cont, cont, pre])) + ln)
            first = False
        lines.append("")
    return "\n".join(lines) + rng.choice(["\n", ""])


def pred(ts, nsrc, env):
    return propcheck.c08(ts, nsrc)


def run(ctx):
    return parserprop.run_generic(
        ctx, "C08", "altered-verbatim-content", pred, verb_doc,
        ["list / block quote markup, ordered-list start and 'first closing backtick string of that length' are not theorems: carried by the pipeline correspondence (content, markup, info are compared) and the predicate on the implementation (partial)"],
        "correspondence and predicate on: seed corpus, mutations, grammar, and verbatim leaves (fences with info, indented code with tabs, html blocks, thematic breaks of every shape, ATX/setext headings, code spans incl. NBSP padding and line ends, ordered markers, verbatim lines that start with blanks other than space / tab) under container prefixes with tabs at every column; x standard and random configurations",
        fixed_extra=docs.line_pairs())


def replay(body):
    return parserprop.replay_generic(body, pred)
